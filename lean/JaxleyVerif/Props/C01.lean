/-
C01 — every voltage step is the exact solution of the discretised cable equation.

1. the generated conductance kernels equal the physics of `Spec.Cable` (unit factors 10⁷, 10³, 10⁵ accounted for)
2. the cable system has at most one solution (`specsys_unique`, maximum principle on any finite node set)
3. the abstract Hines elimination solves every tree system with non-zero pivots (`hines_solves`), and the pivots
   of every weakly row-dominant Z-matrix with strict compartment rows are positive (`hines_pivots_pos`)
4. Crank–Nicolson as implemented (`2·bwd(dt/2) − v`) is the trapezoidal rule
5. the code-shaped solver (`Model.SolveJaxley`: padded slots, Thomas rows, branch-point steps): triangulation of a slot yields the
   Schur pivots of the path (`thomas_triang_pivots`), padding rows are irrelevant (`padding_irrelevant`), triangulation + back
   substitution solves the tridiagonal system of a slot (`thomas_slot_solves`), every branch-point step is a solution-set
   preserving row operation (`bp_*_row`)
6. the WHOLE custom solver, for every schedule (`custom_solver_correct`, `custom_solver_unique`): for every well-formed indexer +
   level schedule (any number of levels, any branching, any padding; `wfB`, a decidable structural predicate that the driver
   evaluates on every schedule captured from the real code) and every array content whose pivots do not vanish (`PivOK`,
   decided by `pivOkB`, also evaluated per case), `Model.SolveJaxley.solve` returns a solution of the system its ten input arrays
   denote (`Sat`), and that solution is the only one; for cable-like arrays (`Dominant`: strictly row-dominant Z-rows for the
   compartments, weighted Kirchhoff rows with positive weights for the branch points — what `step_voltage_implicit_with_jaxley_spsolve`
   assembles in exact arithmetic) the pivot hypothesis is a THEOREM (`custom_solver_pivots_of_dominant`), so the solver is correct
   unconditionally (`custom_solver_correct_cable`)
7. the ARRAY ASSEMBLY of `step_voltage_implicit_with_jaxley_spsolve` (`Model.AssembleJaxley.assembleJ`, statement by statement: scatter
   adds through `idx.mask`, `group_and_sum`, the per-branch scatters through `par_inds` / `child_inds`): for every edge table that is
   structurally well formed relative to indexer and schedule (`edgesWfB`, decidable, evaluated on every captured table) the ten arrays
   DENOTE the physical edge-list system (`jaxley_arrays_denote_physical_system`: `Sat … ↔ PhysSys`, the same matrix the `jax.sparse`
   backend assembles), they are cable-like for positive conductances (`jaxley_arrays_dominant`), hence
   `jaxley_backend_exact` : what the code reads back IS the unique solution of the implicit-Euler cable system, with no hypothesis on
   pivots
The code-shaped assembly `Model.Cable.assemble` is tied to the implementation by the correspondence harness, and its
exact rational solution is checked against `Spec.Cable` with residual exactly 0 on every generated case.
-/
import JaxleyVerif.Lemmas.Tactics
import JaxleyVerif.Lemmas.RealInst
import JaxleyVerif.Lemmas.HinesPivots
import JaxleyVerif.Lemmas.MaxPrinciple
import JaxleyVerif.Lemmas.SolveJaxley
import JaxleyVerif.Lemmas.SolveJaxleyGlobal
import JaxleyVerif.Lemmas.SolveJaxleyDominant
import JaxleyVerif.Lemmas.AssembleJaxley
import JaxleyVerif.Gen.Kernels
import JaxleyVerif.Spec.Cable
import Mathlib.Tactic.Positivity

namespace JaxleyVerif.Props.C01
open JaxleyVerif JaxleyVerif.Gen JaxleyVerif.Spec.Cable

/-! ## 1. kernels = physics -/

section kernels
variable {r1 r2 ρ1 ρ2 l1 l2 c1 : ℝ}

/-- `compute_coupling_cond(...)/c₁ = 10³·G₁₂ / C₁` : axial conductance between centres per capacitance (1/ms) -/
theorem couplingCond_eq_spec (hr1 : 0 < r1) (hr2 : 0 < r2) (hρ1 : 0 < ρ1) (hρ2 : 0 < ρ2) (hl1 : 0 < l1) (hl2 : 0 < l2)
    (hc : 0 < c1) :
    compute_coupling_cond r1 r2 ρ1 ρ2 l1 l2 / c1
      = 1.0e3 * gAxial ⟨r1, l1, ρ1, c1⟩ ⟨r2, l2, ρ2, c1⟩ / capUF (⟨r1, l1, ρ1, c1⟩ : Comp ℝ) := by
  unfold compute_coupling_cond gAxial capUF areaCm2 rHalf
  simp only [haspi_real]
  have hπ := Real.pi_pos
  norm_num
  field_simp
  first | done | ring | norm_num

/-- `compute_coupling_cond_branchpoint(...)/c = 10³·G_end / C` -/
theorem bpCond_eq_spec (hr1 : 0 < r1) (hρ1 : 0 < ρ1) (hl1 : 0 < l1) (hc : 0 < c1) :
    compute_coupling_cond_branchpoint r1 ρ1 l1 / c1
      = 1.0e3 * gEnd (⟨r1, l1, ρ1, c1⟩ : Comp ℝ) / capUF (⟨r1, l1, ρ1, c1⟩ : Comp ℝ) := by
  unfold compute_coupling_cond_branchpoint gEnd capUF areaCm2 rHalf
  simp only [haspi_real]
  have hπ := Real.pi_pos
  norm_num
  field_simp
  first | done | ring | norm_num

/-- the branch-point weights are the end conductances up to ONE global constant `κ = 10⁷/(2π)` -/
theorem impact_eq_spec (hr1 : 0 < r1) (hρ1 : 0 < ρ1) (hl1 : 0 < l1) :
    compute_impact_on_node r1 ρ1 l1 * 1000.0 = (1.0e7 / (2 * Real.pi)) * gEnd (⟨r1, l1, ρ1, c1⟩ : Comp ℝ) := by
  unfold compute_impact_on_node gEnd rHalf
  simp only [haspi_real]
  have hπ := Real.pi_pos
  norm_num
  field_simp
  first | done | ring | norm_num

/-- a point current of `I` nA enters the voltage equation as `10⁻³·I / C` (mV/ms), whatever the geometry -/
theorem stim_conversion {I : ℝ} (hr1 : 0 < r1) (hl1 : 0 < l1) (hc : 0 < c1) :
    convert_point_process_to_distributed I r1 l1 / c1 = 1.0e-3 * I / capUF (⟨r1, l1, ρ1, c1⟩ : Comp ℝ) := by
  unfold convert_point_process_to_distributed capUF areaCm2
  simp only [haspi_real]
  have hπ := Real.pi_pos
  norm_num
  field_simp
  first | done | ring | norm_num

/-- symmetry after scaling with the capacitance: `C₁·cond(1←2) = C₂·cond(2←1)` -/
theorem couplingCond_symmetric (hr1 : 0 < r1) (hr2 : 0 < r2) (hρ1 : 0 < ρ1) (hρ2 : 0 < ρ2) (hl1 : 0 < l1) (hl2 : 0 < l2) :
    compute_coupling_cond r1 r2 ρ1 ρ2 l1 l2 * (2 * Real.pi * r1 * l1)
      = compute_coupling_cond r2 r1 ρ2 ρ1 l2 l1 * (2 * Real.pi * r2 * l2) := by
  unfold compute_coupling_cond
  have hπ := Real.pi_pos
  norm_num
  field_simp
  first | done | ring | norm_num

end kernels

/-! ## 2. uniqueness -/

/-- the discretised cable system has at most one solution (any finite node set, any admissible weights) -/
theorem specsys_unique {ι : Type} [Fintype ι] [DecidableEq ι] [Nonempty ι] {w : ι → ι → ℝ} {σ : ι → ℝ}
    (h : Cable.Admissible w σ) {x y b : ι → ℝ}
    (hx : ∀ i, Cable.row w σ x i = b i) (hy : ∀ i, Cable.row w σ y i = b i) : x = y :=
  Cable.unique_solution h hx hy

/-! ## 3. Hines -/

open Model.HTree in
/-- the two-pass elimination returns values satisfying every row of the tree system -/
theorem hines_solves {K : Type} [Field K] (t : Model.HTree K) (h : Piv t) : Holds 0 t := hines_correct 0 t h

open Model.HTree in
/-- for weakly row-dominant Z-matrices whose rows are strictly dominant or coupled to their parent all pivots are
non-zero, hence Hines solves every such system -/
theorem hines_pivots_pos {K : Type} [Field K] [LinearOrder K] [IsStrictOrderedRing K] (t : Model.HTree K) (h : Good t) :
    Piv t ∧ Holds 0 t := ⟨(pivot_bound t h).2, hines_solves_good t h⟩

/-! ## 4. schemes -/

/-- Crank–Nicolson as in `Module.step`: if `h` solves the backward-Euler system with step `dt/2`,
`h + (dt/2)·(A h) = v + (dt/2)·b`, then `x = 2h − v` satisfies the trapezoidal rule
`x + (dt/2)·A x = v − (dt/2)·A v + dt·b` for every LINEAR operator `A`. -/
theorem cn_from_half_step {V : Type} [AddCommGroup V] [Module ℝ V] (A : V →ₗ[ℝ] V) (v b h : V) (dt : ℝ)
    (hh : h + (dt / 2) • A h = v + (dt / 2) • b) :
    (2 • h - v) + (dt / 2) • A (2 • h - v) = v - (dt / 2) • A v + dt • b := by
  have e : A (2 • h - v) = 2 • A h - A v := by rw [map_sub, map_nsmul]
  rw [e]
  have h2 : (2:ℕ) • h + (2:ℕ) • ((dt / 2) • A h) = (2:ℕ) • v + (2:ℕ) • ((dt / 2) • b) := by
    rw [← nsmul_add, ← nsmul_add, hh]
  have e3 : dt • b = (2:ℕ) • ((dt / 2) • b) := by
    rw [← Nat.cast_smul_eq_nsmul ℝ, smul_smul]; congr 1; push_cast; ring
  have e4 : (dt / 2) • ((2:ℕ) • A h - A v) = (2:ℕ) • ((dt / 2) • A h) - (dt / 2) • A v := by
    rw [smul_sub, smul_comm]
  rw [e4, e3]
  have : (2:ℕ) • v = v + v := two_nsmul v
  rw [this] at h2
  calc 2 • h - v + (2 • (dt / 2) • A h - (dt / 2) • A v)
      = (2 • h + 2 • (dt / 2) • A h) - v - (dt / 2) • A v := by abel
    _ = (v + v + 2 • (dt / 2) • b) - v - (dt / 2) • A v := by rw [h2]
    _ = v - (dt / 2) • A v + 2 • (dt / 2) • b := by abel

/-! ## 5. the code-shaped solver: per-slot and per-step correctness (all inputs, any field) -/

section solver
open JaxleyVerif.Model.SolveJaxley
variable {K : Type} [Field K]

/-- `thomas_triang_upper` on a padded slot `[s, e]`: first row = Schur pivot / right-hand side of the path, other rows normalised -/
theorem thomas_triang_pivots (st : St K) (s e : Nat) (h : s < e) :
    let P := pe st.diags st.lowers st.uppers st.solves e
    let st' := triangSlot st s e
    st'.diags s = (P (e - s)).1 ∧ st'.solves s = (P (e - s)).2 ∧
    (∀ k, k < e - s → st'.diags (e - k) = 1 ∧ st'.lowers (e - k) = st.lowers (e - k) / (P k).1 ∧
        st'.solves (e - k) = (P k).2 / (P k).1) ∧
    (∀ j, s ≤ j → j < e → st'.uppers j = 0) := triangSlot_spec st s e h

/-- identity padding rows behind the last real row `l` of a slot do not change any pivot of the real rows -/
theorem padding_irrelevant (d lo up b : Nat → K) (l e k : Nat) (hle : l ≤ e) (hk : k ≤ l)
    (hpad : ∀ j, l < j → j ≤ e → d j = 1 ∧ lo j = 0 ∧ b j = 0) (hup : ∀ j, l ≤ j → j < e → up j = 0) :
    pe d lo up b e (e - l + k) = pe d lo up b l k := pe_padding_shift d lo up b l e k hle hk hpad hup

/-- Thomas triangulation followed by back substitution solves the tridiagonal system of the slot (non-zero pivots) -/
theorem thomas_slot_solves (st : St K) (s e : Nat) (h : s ≤ e)
    (hp : ∀ k, k ≤ e - s → (pe st.diags st.lowers st.uppers st.solves e k).1 ≠ 0) :
    let x := (backsubSlot (triangSlot st s e) s e).solves
    ∀ i, s ≤ i → i ≤ e →
      (if s < i then st.lowers i * x (i - 1) else 0) + st.diags i * x i + (if i < e then st.uppers i * x (i + 1) else 0)
        = st.solves i := slot_solve_correct st s e h hp

/-- the triangulation touches nothing outside its slot (branches of one level are independent: `vmap`) -/
theorem thomas_triang_frame (st : St K) (s e j : Nat) (hj : j < s ∨ e < j) :
    (triangSlot st s e).diags j = st.diags j ∧ (triangSlot st s e).lowers j = st.lowers j ∧
    (triangSlot st s e).uppers j = st.uppers j ∧ (triangSlot st s e).solves j = st.solves j := triangSlot_frame st s e j hj

theorem bp_child_lower_row (D S w c d0 y x z rest : K) (hd : d0 ≠ 0) (hrow : d0 * x + c * z = y) :
    (D * z + w * x + rest = S) ↔ ((D + (-w / d0) * c) * z + rest = S + (-w / d0) * y) := elim_child_row D S w c d0 y x z rest hd hrow
theorem bp_parent_upper_row (D S w c d y x z rest : K) (hD : D ≠ 0) (hbp : D * z + w * x = S) :
    (d * x + c * z + rest = y) ↔ ((d + -(c / D) * w) * x + rest = y + -(c / D) * S) := elim_parent_row D S w c d y x z rest hD hbp
theorem bp_parent_lower_row (D S w y x z one : K) (h1 : one = 1) (hx : one * x = y) :
    (D * z + w * x = S) ↔ (D * z = S + -y * w / one) := backsub_parent_row D S w y x z one h1 hx
theorem bp_child_upper_row (D S c d y x z : K) (hD : D ≠ 0) (hz : D * z = S) :
    (d * x + c * z = y) ↔ (d * x = y + -S * c / D) := backsub_child_row D S c d y x z hD hz

/-- non-vacuity: a two-row slot `[[2,1],[1,3]] x = [3,5]` -/
example : (backsubSlot (triangSlot (K := ℚ) ⟨fun i => if i = 0 then 2 else 3, fun _ => 1, fun _ => 1, fun i => if i = 0 then 3 else 5,
    fun _ => 0, fun _ => 0, fun _ => 0, fun _ => 0, fun _ => 0, fun _ => 0⟩ 0 1) 0 1).solves 0 = 4 / 5 := by
  norm_num [backsubSlot, triangSlot, triangMid, backMid, upd]
end solver


/-! ## 6. the whole custom solver over an arbitrary level schedule -/

section global
open JaxleyVerif.Model.SolveJaxley
variable {K : Type} [Field K]

/-- **Correctness of `_triang_branched` + `_backsub_branched` as modelled, for every schedule**: if indexer and schedule are
structurally well formed (`wfB`: disjoint non-empty slots, every branch once, every branch point with one parent, children and
parents of a level meeting at the same branch points, parents of a level among the children of the previous one) and no divisor
met by the elimination vanishes, the returned arrays satisfy every row — compartment rows of every (padded) slot and branch-point
rows — of the system denoted by the INPUT arrays. -/
theorem custom_solver_correct (ix : Idx) (sc : Sched) (st : St K) (hwf : wfB ix sc = true) (hp : PivOK ix sc st) :
    Sat ix sc st (solve ix sc st).solves (fun p => (solve ix sc st).bpSolves p / (solve ix sc st).bpDiags p) :=
  solve_correct ix sc st hwf hp

/-- … and it is the only solution: any `(x, z)` satisfying the input system agrees with the output on every cell of every slot
and on every branch point -/
theorem custom_solver_unique (ix : Idx) (sc : Sched) (st : St K) (hwf : wfB ix sc = true) (hp : PivOK ix sc st)
    (x z : Nat → K) (hs : Sat ix sc st x z) :
    (∀ b ∈ branchesOf sc, ∀ i, ix.first b ≤ i → i ≤ ix.paddedLast b → x i = (solve ix sc st).solves i) ∧
    (∀ q ∈ pairsP sc, z q.2 = (solve ix sc st).bpSolves q.2 / (solve ix sc st).bpDiags q.2) :=
  solve_unique ix sc st hwf hp x z hs

/-- the Boolean the driver prints as `piv=` decides the pivot hypothesis -/
theorem pivot_check_sound [DecidableEq K] (ix : Idx) (sc : Sched) (st : St K) : pivOkB ix sc st = true ↔ PivOK ix sc st :=
  pivOkB_iff ix sc st

/-- non-vacuity: one root branch (2 cells), one branch point, two children with slots of different padded size -/
example : ∃ (ix : Idx) (sc : Sched) (st : St ℚ), wfB ix sc = true ∧ PivOK ix sc st := ⟨exIx, exSc, exSt, ex_wf, ex_piv⟩
end global

section dominant
open JaxleyVerif.Model.SolveJaxley
variable {K : Type} [Field K] [LinearOrder K] [IsStrictOrderedRing K]

/-- for cable-like arrays (positive diagonals dominating non-positive couplings in every compartment row, branch-point rows
`−(Σ w) z + Σ w_i x_i` with positive weights) no divisor of the elimination vanishes, whatever the schedule -/
theorem custom_solver_pivots_of_dominant (ix : Idx) (sc : Sched) (st : St K) (hwf : wfB ix sc = true) (hd : Dominant ix sc st) :
    PivOK ix sc st := pivOK_of_dominant ix sc st hwf hd

/-- hence the custom solver solves every cable-like system on every well-formed schedule -/
theorem custom_solver_correct_cable (ix : Idx) (sc : Sched) (st : St K) (hwf : wfB ix sc = true) (hd : Dominant ix sc st) :
    Sat ix sc st (solve ix sc st).solves (fun p => (solve ix sc st).bpSolves p / (solve ix sc st).bpDiags p) :=
  solve_correct_of_dominant ix sc st hwf hd

example : ∃ (ix : Idx) (sc : Sched) (st : St ℚ), wfB ix sc = true ∧ Dominant ix sc st := ⟨exIx, exSc, exStD, ex_wf, ex_dominant⟩
end dominant


/-! ## 7. from the edge table to the solution: the array assembly of `step_voltage_implicit_with_jaxley_spsolve` -/

section assembly
open JaxleyVerif.Model.SolveJaxley

/-- the ten arrays the code assembles denote the physical edge-list system (any field) -/
theorem jaxley_arrays_denote_physical_system {K : Type} [Field K] (ix : Idx) (sc : Sched) (inp : AsmIn K)
    (hwf : wfB ix sc = true) (hew : edgesWfB ix sc inp = true) (xc z : Nat → K) :
    Sat ix sc (assembleJ inp) (padX inp xc) z ↔ PhysSys inp xc z := assembleJ_denotes ix sc inp hwf hew xc z

variable {K : Type} [Field K] [LinearOrder K] [IsStrictOrderedRing K]

/-- for `dt > 0`, positive axial conductances and non-negative membrane slopes the assembled arrays are cable-like -/
theorem jaxley_arrays_dominant (ix : Idx) (sc : Sched) (inp : AsmIn K) (hwf : wfB ix sc = true)
    (hew : edgesWfB ix sc inp = true) (hdt : 0 < inp.dt) (hg : ∀ e ∈ inp.edges, 0 < e.2.2.2)
    (hvt : ∀ i, i < inp.n → 0 ≤ inp.vt i) : Dominant ix sc (assembleJ inp) :=
  assembleJ_dominant ix sc inp hwf hew hdt hg hvt

/-- **the jaxley.* backends, in exact arithmetic**: assembly + triangulation + back substitution + read-back return a solution of
the implicit-Euler cable system given by the edge table, and every solution of that system has these compartment values -/
theorem jaxley_backend_exact (ix : Idx) (sc : Sched) (inp : AsmIn K) (hwf : wfB ix sc = true)
    (hew : edgesWfB ix sc inp = true) (hdt : 0 < inp.dt) (hg : ∀ e ∈ inp.edges, 0 < e.2.2.2)
    (hvt : ∀ i, i < inp.n → 0 ≤ inp.vt i) :
    PhysSys inp (readBack inp (solve ix sc (assembleJ inp)))
      (fun p => (solve ix sc (assembleJ inp)).bpSolves p / (solve ix sc (assembleJ inp)).bpDiags p) ∧
    ∀ xc z, PhysSys inp xc z → ∀ i, i < inp.n → xc i = readBack inp (solve ix sc (assembleJ inp)) i :=
  jaxley_backend_solves_physical_system ix sc inp hwf hew hdt hg hvt

/-- non-vacuity: a 3-branch cell (root 2 compartments, children 1 and 2 compartments: one padding cell), 10 edges -/
example : wfB exIx3 exSc = true ∧ edgesWfB exIx3 exSc exAsm = true := ⟨exAsm_wf, exAsm_ew⟩
end assembly

/-! ## non-vacuity -/
example : compute_coupling_cond (1:ℝ) 1 100 100 10 10 / 1
    = 1.0e3 * gAxial ⟨1, 10, 100, 1⟩ ⟨1, 10, 100, 1⟩ / capUF (⟨1, 10, 100, 1⟩ : Comp ℝ) :=
  couplingCond_eq_spec (by norm_num) (by norm_num) (by norm_num) (by norm_num) (by norm_num) (by norm_num) (by norm_num)

end JaxleyVerif.Props.C01
