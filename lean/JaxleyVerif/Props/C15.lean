/-
C15 — simulations converge to cable theory at the expected order.

What is proved (about the one-step maps that C01/C03 tie to the code):
* units: the steady state of one passive compartment under constant current (`steady_state_single_comp`)
* time: exact amplification factors of backward Euler and Crank–Nicolson for a passive compartment / cable mode,
  their distance to `exp(−h)` (`O(h²)` resp. `O(h³)` per step), and the global first / second order bounds
* space: the cosine modes are eigenvectors of the sealed-end compartmental axial operator for every `N`, with
  eigenvalue `2 − 2cos(kπ/N)`, whose relative distance to the continuum value `(kπ/N)²` is `O((kπ/N)²)`
What is measured by the harness: refinement ladders on the real code (all backends) against closed forms.
-/
import Mathlib.Analysis.SpecialFunctions.Trigonometric.Bounds
import Mathlib.Analysis.SpecialFunctions.Exponential
import JaxleyVerif.Props.C01

namespace JaxleyVerif.Props.C15
open JaxleyVerif JaxleyVerif.Gen

/-! ## units -/

/-- one backward-Euler step of a single compartment as assembled by the code:
`x·(1 + dt·vt) = v + dt·ct` with `vt = 1000·g/c`, `ct = (1000·g·E + convert(I))/c` -/
noncomputable def beStep (v dt vt ct : ℝ) : ℝ := (v + dt * ct) / (1 + dt * vt)

/-- the fixed point of the single-compartment step under constant current `I` (nA) is
`E + I·100/(2π·r·l·g)` mV (g in S/cm², r,l in µm), independent of `dt`, capacitance and scheme -/
theorem steady_state_single_comp {g E I r l c dt : ℝ} (hg : 0 < g) (hr : 0 < r) (hl : 0 < l) (hc : 0 < c) (hdt : 0 < dt) :
    let vt := 1000 * g / c
    let ct := (1000 * g * E + convert_point_process_to_distributed I r l) / c
    let vss := E + I * 100 / (2 * Real.pi * r * l * g)
    beStep vss dt vt ct = vss := by
  intro vt ct vss
  have hπ := Real.pi_pos
  have h1 : (1:ℝ) + dt * vt ≠ 0 := by
    have : 0 < dt * vt := by positivity
    linarith
  unfold beStep
  rw [div_eq_iff h1]
  simp only [vt, ct, vss]
  unfold convert_point_process_to_distributed
  simp only [haspi_real]
  norm_num
  field_simp
  ring

/-! ## time discretisation -/

/-- backward Euler multiplies the distance to the steady state by `1/(1+h)`, `h = dt·vt` -/
theorem be_factor {v dt vt ct : ℝ} (hvt : vt ≠ 0) (h1 : 1 + dt * vt ≠ 0) :
    beStep v dt vt ct - ct / vt = (v - ct / vt) * (1 / (1 + dt * vt)) := by
  unfold beStep; field_simp; ring

/-- Crank–Nicolson (`2·bwd(dt/2) − v`) multiplies it by `(1 − h/2)/(1 + h/2)` -/
theorem cn_factor {v dt vt ct : ℝ} (hvt : vt ≠ 0) (h1 : 1 + dt / 2 * vt ≠ 0) :
    (2 * beStep v (dt / 2) vt ct - v) - ct / vt = (v - ct / vt) * ((1 - dt * vt / 2) / (1 + dt * vt / 2)) := by
  have h2 : 1 + dt * vt / 2 ≠ 0 := by
    have : dt / 2 * vt = dt * vt / 2 := by ring
    rwa [this] at h1
  have h3 : 2 + vt * dt ≠ 0 := by
    intro h; apply h2; linarith
  have h4 : 2 + dt * vt ≠ 0 := by rw [mul_comm]; exact h3
  unfold beStep
  have e2 : (1:ℝ) + dt / 2 * vt = (2 + dt * vt) / 2 := by ring
  have e3 : (1:ℝ) + dt * vt / 2 = (2 + dt * vt) / 2 := by ring
  rw [e2, e3]
  field_simp
  ring

/-- one-step consistency of backward Euler with the exact relaxation: `0 ≤ 1/(1+h) − e^{−h} ≤ h²` -/
theorem be_local_error {h : ℝ} (hh : 0 ≤ h) : 0 ≤ 1 / (1 + h) - Real.exp (-h) ∧ 1 / (1 + h) - Real.exp (-h) ≤ h ^ 2 := by
  have hpos : 0 < 1 + h := by linarith
  have h1 : Real.exp (-h) ≤ 1 / (1 + h) := by
    rw [Real.exp_neg, ← one_div]
    exact one_div_le_one_div_of_le hpos (by linarith [Real.add_one_le_exp h])
  have h2 : 1 - h ≤ Real.exp (-h) := by linarith [Real.add_one_le_exp (-h)]
  have h3 : 1 / (1 + h) - (1 - h) = h ^ 2 / (1 + h) := by field_simp; ring
  have h4 : h ^ 2 / (1 + h) ≤ h ^ 2 := div_le_self (sq_nonneg h) (by linarith)
  constructor <;> linarith

/-- one-step consistency of Crank–Nicolson: `|(1−h/2)/(1+h/2) − e^{−h}| ≤ h³/2` on `0 ≤ h ≤ 1` -/
theorem cn_local_error {h : ℝ} (h0 : 0 ≤ h) (h1 : h ≤ 1) :
    |(1 - h / 2) / (1 + h / 2) - Real.exp (-h)| ≤ h ^ 3 / 2 := by
  have habs : |(-h)| ≤ 1 := by rw [abs_neg, abs_of_nonneg h0]; exact h1
  have hb := Real.exp_bound habs (n := 3) (by norm_num)
  simp only [Finset.sum_range_succ, Finset.sum_range_zero, Nat.factorial] at hb
  rw [abs_neg, abs_of_nonneg h0] at hb
  norm_num at hb
  have hp : 0 < 1 + h / 2 := by linarith
  have e : (1 - h / 2) / (1 + h / 2) = 1 - h + h ^ 2 / 2 - (h ^ 3 / 4) / (1 + h / 2) := by field_simp; ring
  have hq0 : 0 ≤ (h ^ 3 / 4) / (1 + h / 2) := by positivity
  have hq1 : (h ^ 3 / 4) / (1 + h / 2) ≤ h ^ 3 / 4 := div_le_self (by positivity) (by linarith)
  rw [abs_le] at hb ⊢
  have h3 : 0 ≤ h ^ 3 := by positivity
  constructor <;> nlinarith [hb.1, hb.2]

/-- error accumulation: `|aⁿ − bⁿ| ≤ n·|a − b|` for contractions -/
theorem pow_diff_le {a b : ℝ} (ha : |a| ≤ 1) (hb : |b| ≤ 1) (n : ℕ) : |a ^ n - b ^ n| ≤ n * |a - b| := by
  have := abs_pow_sub_pow_le a b n
  calc |a ^ n - b ^ n| ≤ |a - b| * n * max |a| |b| ^ (n - 1) := this
    _ ≤ |a - b| * n * 1 := by
        apply mul_le_mul_of_nonneg_left _ (by positivity)
        exact pow_le_one₀ (le_max_of_le_left (abs_nonneg a)) (max_le ha hb)
    _ = n * |a - b| := by ring

/-- backward Euler is globally first order: after `n` steps of size `dt` (`t = n·dt`, `h = dt/τ ≥ 0`) the decay
factor differs from the exact `e^{−t/τ}` by at most `n·h² = (t/τ)·h` -/
theorem be_global_first_order {h : ℝ} (hh : 0 ≤ h) (n : ℕ) :
    |(1 / (1 + h)) ^ n - (Real.exp (-h)) ^ n| ≤ n * h ^ 2 := by
  have hpos : 0 < 1 + h := by linarith
  have ha : |1 / (1 + h)| ≤ 1 := by
    rw [abs_of_pos (by positivity)]; rw [div_le_one hpos]; linarith
  have hb : |Real.exp (-h)| ≤ 1 := by
    rw [abs_of_pos (Real.exp_pos _)]; exact Real.exp_le_one_iff.mpr (by linarith)
  have hl := be_local_error hh
  calc |(1 / (1 + h)) ^ n - (Real.exp (-h)) ^ n| ≤ n * |1 / (1 + h) - Real.exp (-h)| := pow_diff_le ha hb n
    _ ≤ n * h ^ 2 := by
        apply mul_le_mul_of_nonneg_left _ (Nat.cast_nonneg n)
        rw [abs_of_nonneg hl.1]; exact hl.2

/-- Crank–Nicolson is globally second order: the decay factor after `n` steps differs by at most `n·h³/2 = (t/τ)·h²/2` -/
theorem cn_global_second_order {h : ℝ} (h0 : 0 ≤ h) (h1 : h ≤ 1) (n : ℕ) :
    |((1 - h / 2) / (1 + h / 2)) ^ n - (Real.exp (-h)) ^ n| ≤ n * (h ^ 3 / 2) := by
  have hp : 0 < 1 + h / 2 := by linarith
  have ha : |(1 - h / 2) / (1 + h / 2)| ≤ 1 := by
    rw [abs_le]; constructor
    · rw [le_div_iff₀ hp]; linarith
    · rw [div_le_one hp]; linarith
  have hb : |Real.exp (-h)| ≤ 1 := by
    rw [abs_of_pos (Real.exp_pos _)]; exact Real.exp_le_one_iff.mpr (by linarith)
  calc _ ≤ n * |(1 - h / 2) / (1 + h / 2) - Real.exp (-h)| := pow_diff_le ha hb n
    _ ≤ n * (h ^ 3 / 2) := mul_le_mul_of_nonneg_left (cn_local_error h0 h1) (Nat.cast_nonneg n)

/-! ## space discretisation: modes of the sealed uniform cable -/

/-- cosine mode `k` sampled at the centre of compartment `j` of `N` -/
noncomputable def mode (N k : ℕ) (j : ℤ) : ℝ := Real.cos (k * Real.pi / N * (j + 1 / 2))

/-- interior rows: `x_{j+1} − 2x_j + x_{j−1} = −(2 − 2cos θ)·x_j`, `θ = kπ/N` -/
theorem mode_interior (N k : ℕ) (j : ℤ) :
    mode N k (j + 1) - 2 * mode N k j + mode N k (j - 1) = -(2 - 2 * Real.cos (k * Real.pi / N)) * mode N k j := by
  unfold mode
  set θ := (k:ℝ) * Real.pi / N
  have e1 : θ * (((j + 1 : ℤ) : ℝ) + 1 / 2) = θ * ((j:ℝ) + 1 / 2) + θ := by push_cast; ring
  have e2 : θ * (((j - 1 : ℤ) : ℝ) + 1 / 2) = θ * ((j:ℝ) + 1 / 2) - θ := by push_cast; ring
  rw [e1, e2, Real.cos_add, Real.cos_sub]; ring

/-- sealed left end: the ghost value equals the first value (`x_{−1} = x_0`), so the boundary row `x_1 − x_0` is the
interior row -/
theorem mode_left_sealed (N k : ℕ) : mode N k (-1) = mode N k 0 := by
  unfold mode
  have : (k:ℝ) * Real.pi / N * (((-1 : ℤ) : ℝ) + 1 / 2) = -((k:ℝ) * Real.pi / N * (((0 : ℤ) : ℝ) + 1 / 2)) := by
    push_cast; ring
  rw [this, Real.cos_neg]

/-- sealed right end: `x_N = x_{N−1}` -/
theorem mode_right_sealed (N k : ℕ) (hN : 0 < N) : mode N k N = mode N k (N - 1) := by
  unfold mode
  have hN' : (N:ℝ) ≠ 0 := by positivity
  have e1 : (k:ℝ) * Real.pi / N * (((N : ℤ) : ℝ) + 1 / 2) = k * Real.pi + (k:ℝ) * Real.pi / N * (1 / 2) := by
    push_cast; field_simp
  have e2 : (k:ℝ) * Real.pi / N * ((((N : ℤ) - 1 : ℤ) : ℝ) + 1 / 2) = k * Real.pi - (k:ℝ) * Real.pi / N * (1 / 2) := by
    push_cast; field_simp; ring
  rw [e1, e2, Real.cos_add, Real.cos_sub, Real.sin_nat_mul_pi]; ring

/-- the discrete eigenvalue `2 − 2cos y` is second-order accurate: `|2 − 2cos y − y²| ≤ y⁴·(5/48)` for `|y| ≤ 1`
(`y = kπ/N = kπ·Δx/L`: relative error `O((kΔx)²)`) -/
theorem spatial_modes_second_order {y : ℝ} (hy : |y| ≤ 1) : |2 - 2 * Real.cos y - y ^ 2| ≤ y ^ 4 * (5 / 48) := by
  have := Real.cos_bound hy
  have e : 2 - 2 * Real.cos y - y ^ 2 = -2 * (Real.cos y - (1 - y ^ 2 / 2)) := by ring
  rw [e, abs_mul]
  have h4 : |y| ^ 4 = y ^ 4 := by rw [← abs_pow]; exact abs_of_nonneg (by positivity)
  rw [h4] at this
  norm_num
  nlinarith

end JaxleyVerif.Props.C15
