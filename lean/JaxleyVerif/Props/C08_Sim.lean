/-
The generic theorems about `integrateCore` / `nested` / `Step.step` (C06, C07, C08) instantiated at the WHOLE-SIMULATION model
`Model.Sim`: statements about `Sim.integrate` and `Sim.step` themselves.  Only structure is used — no fact about `Float`.
-/
import JaxleyVerif.Model.Sim
import JaxleyVerif.Props.C06
import JaxleyVerif.Props.C07
import JaxleyVerif.Props.C08

namespace JaxleyVerif.Props.Sim
open JaxleyVerif.Model JaxleyVerif.Model.Step

abbrev SimModule := JaxleyVerif.Model.Sim.Module
abbrev nan := JaxleyVerif.Model.Sim.nan

variable (m : SimModule) (solver backend : String) (dt : Float) (nsteps : Nat) (u0 : State Float)
  (cols : List Model.Sim.ExtCol) (recs : List (String × Nat))

/-- the state after `k` steps of the run: `k` applications of `Sim.step` to `initState`, consuming the externals of
the steps `0 … k-1` -/
def stateAfter (exts : List (List (Ext Float))) (k : Nat) : State Float :=
  (exts.take k).foldl (Model.Sim.step m solver dt) (Model.Sim.initState m u0)

/-! ### generic facts in the form used below -/

/-- (C06/C07) the rows returned by the core: row `k` is the recording of the state after `k` steps, `k = 0 … n` -/
theorem core_rows {σ ι ο : Type} (step : σ → ι → σ) (rec0 : σ → ο) (zero : ι) (s : σ) (xs : List ι) :
    (integrateCore step rec0 zero s xs none).1 =
      (List.range (xs.length + 1)).map (fun k => rec0 ((xs.take k).foldl step s)) := by
  rw [(C07.manual_stepping_eq_integrate step rec0 zero s xs).1, List.range_succ_eq_map]
  simp [Function.comp_def]

/-- the fitted externals have one entry per time step -/
theorem fitExternals_length {exts : List (List (Ext Float))} (h : Model.Sim.fitExternals nsteps cols = some exts) :
    exts.length = nsteps := by
  unfold Model.Sim.fitExternals at h
  split at h
  · cases h
  · cases h
    simp

/-! ### 1. when does `integrate` run, and the shape of its result -/

/-- (C08, shape) `integrate` runs iff the (solver, backend) pair is accepted and every clamp is long enough -/
theorem sim_integrate_some_iff :
    (Model.Sim.integrate m solver backend dt nsteps u0 cols recs).isSome ↔
      (Model.Sim.accepts m solver backend = true ∧ (Model.Sim.fitExternals nsteps cols).isSome) := by
  unfold Model.Sim.integrate
  cases Model.Sim.accepts m solver backend <;> cases Model.Sim.fitExternals nsteps cols <;> simp

/-- the result of `integrate`, written out: trace `j`, column `k` is entry `j` of the recording of the state after `k` steps -/
theorem sim_integrate_eq {out : List (List Float)} {exts : List (List (Ext Float))}
    (h : Model.Sim.integrate m solver backend dt nsteps u0 cols recs = some out)
    (he : Model.Sim.fitExternals nsteps cols = some exts) :
    out = (List.range recs.length).map (fun j =>
      ((List.range (nsteps + 1)).map (fun k => Model.Sim.record m recs (stateAfter m solver dt u0 exts k))).map
        (fun row => row.getD j nan)) := by
  unfold Model.Sim.integrate at h
  cases ha : Model.Sim.accepts m solver backend
  · simp [ha] at h
  · simp only [ha, Bool.not_true, Bool.false_eq_true, if_false, he, Option.some.injEq] at h
    rw [← h, core_rows, fitExternals_length nsteps cols he]
    rfl

/-- (C08, shape) one trace per recording, `nsteps + 1` columns each -/
theorem sim_integrate_shape {out : List (List Float)}
    (h : Model.Sim.integrate m solver backend dt nsteps u0 cols recs = some out) :
    out.length = recs.length ∧ ∀ tr ∈ out, tr.length = nsteps + 1 := by
  have hs : (Model.Sim.integrate m solver backend dt nsteps u0 cols recs).isSome := by rw [h]; rfl
  obtain ⟨-, hf⟩ := (sim_integrate_some_iff m solver backend dt nsteps u0 cols recs).mp hs
  obtain ⟨exts, he⟩ := Option.isSome_iff_exists.mp hf
  rw [sim_integrate_eq m solver backend dt nsteps u0 cols recs h he]
  refine ⟨by simp, ?_⟩
  intro tr htr
  obtain ⟨j, -, rfl⟩ := List.mem_map.mp htr
  simp

/-! ### 2. recordings: right row, right time step (C08) -/

/-- (C08) entry `j` of a recording is the `j`-th recorded state array read at the within-type index of the recorded
compartment / edge, clamped to the last element (JAX gather semantics) -/
theorem record_entry (u : State Float) (j : Nat) :
    (Model.Sim.record m recs u)[j]? = recs[j]?.map (fun r =>
      (getArr u r.1).getD (min (Model.Sim.localInd m r.1 r.2) ((getArr u r.1).length - 1)) nan) := by
  unfold Model.Sim.record
  rw [List.getElem?_map]

theorem record_length (u : State Float) : (Model.Sim.record m recs u).length = recs.length := by
  unfold Model.Sim.record
  simp

/-- (C08) **trace `j`, column `k` of `integrate` is recording `j` read from the state after `k` steps** -/
theorem sim_recordings_are_states {out : List (List Float)} {exts : List (List (Ext Float))}
    (h : Model.Sim.integrate m solver backend dt nsteps u0 cols recs = some out)
    (he : Model.Sim.fitExternals nsteps cols = some exts) (j : Nat) (hj : j < recs.length) (k : Nat) (hk : k ≤ nsteps) :
    (out.getD j []).getD k nan = (Model.Sim.record m recs (stateAfter m solver dt u0 exts k)).getD j nan := by
  rw [sim_integrate_eq m solver backend dt nsteps u0 cols recs h he]
  simp [List.getD_eq_getElem?_getD, hj, Nat.lt_succ_of_le hk]

/-- (C08) column 0 is read from the initial state `get_all_states` -/
theorem stateAfter_zero (exts : List (List (Ext Float))) :
    stateAfter m solver dt u0 exts 0 = Model.Sim.initState m u0 := rfl

/-- (C08) the fully unfolded form: trace `j`, column `k` is array `recs[j].1` of the state after `k` steps at the (clamped)
within-type index of `recs[j].2` -/
theorem sim_recording_value {out : List (List Float)} {exts : List (List (Ext Float))}
    (h : Model.Sim.integrate m solver backend dt nsteps u0 cols recs = some out)
    (he : Model.Sim.fitExternals nsteps cols = some exts) (j : Nat) (hj : j < recs.length) (k : Nat) (hk : k ≤ nsteps) :
    (out.getD j []).getD k nan =
      (getArr (stateAfter m solver dt u0 exts k) recs[j].1).getD
        (min (Model.Sim.localInd m recs[j].1 recs[j].2) ((getArr (stateAfter m solver dt u0 exts k) recs[j].1).length - 1)) nan := by
  rw [sim_recordings_are_states m solver backend dt nsteps u0 cols recs h he j hj k hk, List.getD_eq_getElem?_getD,
    record_entry, List.getElem?_eq_getElem hj]
  rfl

/-! ### 3. inputs: timing (C08) -/

/-- (C08) the state after `k` steps depends on the externals of the steps `0 … k-1` only -/
theorem sim_inputs_timing (exts exts' : List (List (Ext Float))) (k : Nat) (h : exts.take k = exts'.take k) :
    stateAfter m solver dt u0 exts k = stateAfter m solver dt u0 exts' k := by
  unfold stateAfter
  rw [h]

/-- (C08) the externals of step `k` (0-based) are consumed by exactly the step from state `k` to state `k+1` -/
theorem sim_step_consumes (exts : List (List (Ext Float))) (k : Nat) (hk : k < exts.length) :
    stateAfter m solver dt u0 exts (k + 1) = Model.Sim.step m solver dt (stateAfter m solver dt u0 exts k) exts[k] :=
  C08.stim_timing (Model.Sim.step m solver dt) (Model.Sim.initState m u0) exts k hk

theorem fit_get {ι : Type} (z : ι) (n : Nat) (rows : List ι) (k : Nat) (hk : k < n) :
    (fitToTmax z n rows)[k]? = some (rows[k]?.getD z) := by
  obtain ⟨-, h2, h3⟩ := C08.tmax_pad_truncate z n rows
  by_cases h : k < rows.length
  · rw [h2 k (by omega), List.getElem?_eq_getElem h]
    rfl
  · rw [h3 k (by omega) hk, List.getElem?_eq_none (by omega)]
    rfl

/-- the externals fitted to a shorter `t_max` are a prefix of those fitted to a longer one -/
theorem fitExternals_prefix {nsteps' : Nat} {exts exts' : List (List (Ext Float))} (hn : nsteps ≤ nsteps')
    (he : Model.Sim.fitExternals nsteps cols = some exts) (he' : Model.Sim.fitExternals nsteps' cols = some exts') :
    exts = exts'.take nsteps := by
  unfold Model.Sim.fitExternals at he he'
  split at he
  · cases he
  split at he'
  · cases he'
  cases he
  cases he'
  rw [← List.map_take, List.take_range, Nat.min_eq_left hn]
  apply List.map_congr_left
  intro k hk
  have hk1 : k < nsteps := List.mem_range.mp hk
  simp only [List.map_map]
  apply List.map_congr_left
  intro c _
  simp only [Function.comp, List.getD_eq_getElem?_getD, fit_get _ _ _ k hk1, fit_get _ _ _ k (Nat.lt_of_lt_of_le hk1 hn)]

/-- (C08) **a longer run reproduces the shorter one**: with the same inputs, the first `nsteps + 1` columns of a run over
`nsteps' ≥ nsteps` steps are the columns of the run over `nsteps` steps -/
theorem sim_prefix {nsteps' : Nat} {out out' : List (List Float)} (hn : nsteps ≤ nsteps')
    (h : Model.Sim.integrate m solver backend dt nsteps u0 cols recs = some out)
    (h' : Model.Sim.integrate m solver backend dt nsteps' u0 cols recs = some out')
    (j : Nat) (hj : j < recs.length) (k : Nat) (hk : k ≤ nsteps) :
    (out.getD j []).getD k nan = (out'.getD j []).getD k nan := by
  have hs : (Model.Sim.integrate m solver backend dt nsteps u0 cols recs).isSome := by rw [h]; rfl
  have hs' : (Model.Sim.integrate m solver backend dt nsteps' u0 cols recs).isSome := by rw [h']; rfl
  obtain ⟨exts, he⟩ := Option.isSome_iff_exists.mp ((sim_integrate_some_iff m solver backend dt nsteps u0 cols recs).mp hs).2
  obtain ⟨exts', he'⟩ := Option.isSome_iff_exists.mp ((sim_integrate_some_iff m solver backend dt nsteps' u0 cols recs).mp hs').2
  rw [sim_recordings_are_states m solver backend dt nsteps u0 cols recs h he j hj k hk,
    sim_recordings_are_states m solver backend dt nsteps' u0 cols recs h' he' j hj k (Nat.le_trans hk hn),
    sim_inputs_timing m solver dt u0 exts exts' k]
  rw [fitExternals_prefix nsteps cols hn he he', List.take_take, Nat.min_eq_left hk]

/-! ### 4. composition in time (C07) -/

/-- the transposition `integrate` applies to the rows of the core: one trace per recording -/
def traces (rows : List (List Float)) : List (List Float) :=
  (List.range recs.length).map (fun j => rows.map (fun row => row.getD j nan))

theorem traces_getD (rows : List (List Float)) (j : Nat) :
    (traces recs rows).getD j [] = if j < recs.length then rows.map (fun row => row.getD j nan) else [] := by
  unfold traces
  by_cases hj : j < recs.length <;> simp [List.getD_eq_getElem?_getD, hj]

/-- what `integrate` returns is the transposed output of the core run from `initState` over the fitted externals -/
theorem sim_integrate_traces {out : List (List Float)} {exts : List (List (Ext Float))}
    (h : Model.Sim.integrate m solver backend dt nsteps u0 cols recs = some out)
    (he : Model.Sim.fitExternals nsteps cols = some exts) :
    out = traces recs (integrateCore (Model.Sim.step m solver dt) (Model.Sim.record m recs) []
      (Model.Sim.initState m u0) exts none).1 := by
  unfold Model.Sim.integrate at h
  cases ha : Model.Sim.accepts m solver backend
  · simp [ha] at h
  · simp only [ha, Bool.not_true, Bool.false_eq_true, if_false, he, Option.some.injEq] at h
    rw [← h]
    rfl

/-- (C07) **a run over `xs ++ ys` is a run over `xs` continued from its returned state over `ys`**: the rows of the second
run follow those of the first without the duplicated first row, and the returned states agree; the same for every trace -/
theorem sim_integrate_split (s : State Float) (xs ys : List (List (Ext Float))) :
    let core := fun (s : State Float) (zs : List (List (Ext Float))) =>
      integrateCore (Model.Sim.step m solver dt) (Model.Sim.record m recs) [] s zs none
    (core s (xs ++ ys)).1 = (core s xs).1 ++ (core (core s xs).2 ys).1.tail ∧
    (core s (xs ++ ys)).2 = (core (core s xs).2 ys).2 ∧
    ∀ j, (traces recs (core s (xs ++ ys)).1).getD j [] =
      (traces recs (core s xs).1).getD j [] ++ ((traces recs (core (core s xs).2 ys).1).getD j []).tail := by
  intro core
  obtain ⟨h1, h2⟩ := C07.integrate_split (Model.Sim.step m solver dt) (Model.Sim.record m recs) [] s xs ys
  refine ⟨h1, h2, ?_⟩
  intro j
  simp only [traces_getD]
  split
  · show List.map _ (core s (xs ++ ys)).1 = _
    rw [show (core s (xs ++ ys)).1 = (core s xs).1 ++ (core (core s xs).2 ys).1.tail from h1, List.map_append,
      List.map_tail]
  · rfl

/-- (C07) the state returned with `return_states=True` is the state after the last step -/
theorem sim_returned_state (s : State Float) (xs : List (List (Ext Float))) :
    (integrateCore (Model.Sim.step m solver dt) (Model.Sim.record m recs) [] s xs none).2 =
      xs.foldl (Model.Sim.step m solver dt) s :=
  C07.returned_state_no_checkpoint _ _ _ s xs

/-! ### 5. checkpointing (C06) -/

/-- (C06) **checkpointing does not change the result**: for every non-empty `checkpoint_lengths` whose product covers the
run, the rows (hence the traces) and the returned state equal those of the un-checkpointed run.  The padding steps that
fill the run up to `prod(checkpoint_lengths)` are masked by `is_padding` (`Model.body` keeps the state), their rows are
cut off, so the padding input `[]` is never fed to `Sim.step`. -/
theorem sim_checkpoint_invariant (s : State Float) (xs : List (List (Ext Float))) (ls : List Nat) (hls : ls ≠ [])
    (hlen : xs.length ≤ prodL ls) :
    (integrateCore (Model.Sim.step m solver dt) (Model.Sim.record m recs) [] s xs (some ls)).1 =
      (integrateCore (Model.Sim.step m solver dt) (Model.Sim.record m recs) [] s xs none).1 ∧
    (integrateCore (Model.Sim.step m solver dt) (Model.Sim.record m recs) [] s xs (some ls)).2 =
      (integrateCore (Model.Sim.step m solver dt) (Model.Sim.record m recs) [] s xs none).2 := by
  refine ⟨C06.recs_checkpoint_invariant _ _ _ s xs ls hls hlen, ?_⟩
  rw [C07.returned_state _ _ _ s xs ls hls hlen, C07.returned_state_no_checkpoint]

/-! ### 6./7. clamps (C08) -/

section clamps
variable {α : Type}

theorem find_map_setArr_ne (u : State α) (k k' : String) (a : List α) (h : k ≠ k') :
    (u.map (fun p => if p.1 == k' then (k', a) else p)).find? (·.1 == k) = u.find? (·.1 == k) := by
  induction u with
  | nil => rfl
  | cons p ps ih =>
    simp only [List.map_cons, List.find?_cons]
    by_cases hp : p.1 = k'
    · have h1 : (k' == k) = false := by simpa using fun he => h he.symm
      have h2 : (p.1 == k) = false := by rw [hp]; exact h1
      have e1 : (p.1 == k') = true := by simpa using hp
      simp only [e1, ↓reduceIte, h1, h2]
      exact ih
    · have hp' : (p.1 == k') = false := by simpa using hp
      simp only [hp', Bool.false_eq_true, if_false, ih]

/-- writing array `k'` does not change array `k ≠ k'` -/
theorem getArr_setArr_ne (u : State α) (k k' : String) (a : List α) (h : k ≠ k') :
    getArr (setArr u k' a) k = getArr u k := by
  unfold getArr setArr
  split
  · rw [find_map_setArr_ne u k k' a h]
  · rw [List.find?_append]
    have h1 : (k' == k) = false := by simpa using fun he => h he.symm
    cases hf : u.find? (·.1 == k) <;> simp [h1]

theorem clampV_getArr_ne (k : String) (hk : k ≠ "v") : ∀ (xs : List (Ext α)) (u : State α),
    getArr (clampV u xs) k = getArr u k := by
  intro xs
  induction xs with
  | nil => intro u; rfl
  | cons e t ih =>
    intro u
    show getArr (clampV _ t) k = _
    rw [ih]
    dsimp only
    split
    · exact getArr_setArr_ne _ _ _ _ hk
    · rfl

theorem clampV_v_length : ∀ (xs : List (Ext α)) (u : State α),
    (getArr (clampV u xs) "v").length = (getArr u "v").length := by
  intro xs
  induction xs with
  | nil => intro u; rfl
  | cons e t ih =>
    intro u
    show (getArr (clampV _ t) "v").length = _
    rw [ih]
    dsimp only
    split
    · rw [C08.getArr_setArr, C08.setAt_length]
    · rfl

theorem clampV_no_v : ∀ (ys : List (Ext α)) (u : State α), (∀ e ∈ ys, e.key ≠ "v") → clampV u ys = u := by
  intro ys
  induction ys with
  | nil => intro u _; rfl
  | cons e t ih =>
    intro u h
    have he : (e.key == "v") = false := by simpa using h e (by simp)
    show clampV (if e.key == "v" then _ else u) t = u
    rw [he]
    exact ih u (fun e' he' => h e' (List.mem_cons_of_mem _ he'))

/-- the LAST voltage clamp of a step holds in the state that `clampV` returns -/
theorem clampV_holds (w : State α) (pre post : List (Ext α)) (inds : List Nat) (vals : List α) (j : Nat)
    (hj : j < inds.length) (hv : inds.length = vals.length) (hnd : inds.Nodup) (hpost : ∀ e ∈ post, e.key ≠ "v")
    (hlt : inds[j] < (getArr (clampV w (pre ++ ⟨"v", inds, vals⟩ :: post)) "v").length) :
    (getArr (clampV w (pre ++ ⟨"v", inds, vals⟩ :: post)) "v")[inds[j]]? = some (vals[j]'(hv ▸ hj)) := by
  have hform : clampV w (pre ++ ⟨"v", inds, vals⟩ :: post) =
      setArr (clampV w pre) "v" (setAt (getArr (clampV w pre) "v") inds vals) := by
    unfold clampV
    rw [List.foldl_append, List.foldl_cons]
    exact clampV_no_v post _ hpost
  rw [hform, C08.getArr_setArr] at hlt ⊢
  rw [C08.setAt_length] at hlt
  exact C08.setAt_get _ inds vals j hj hv hnd hlt

theorem clampStates_getArr_other (k : String) : ∀ (ys : List (Ext α)) (u : State α), (∀ e ∈ ys, e.key ≠ k) →
    getArr (clampStates u ys) k = getArr u k := by
  intro ys
  induction ys with
  | nil => intro u _; rfl
  | cons e t ih =>
    intro u h
    show getArr (clampStates _ t) k = _
    rw [ih _ (fun e' he' => h e' (List.mem_cons_of_mem _ he'))]
    dsimp only
    split
    · rfl
    · exact getArr_setArr_ne _ _ _ _ (fun he => h e (by simp) he.symm)

theorem clampStates_length (k : String) : ∀ (xs : List (Ext α)) (u : State α),
    (getArr (clampStates u xs) k).length = (getArr u k).length := by
  intro xs
  induction xs with
  | nil => intro u; rfl
  | cons e t ih =>
    intro u
    show (getArr (clampStates _ t) k).length = _
    rw [ih]
    dsimp only
    split
    · rfl
    · by_cases he : e.key = k
      · rw [he, C08.getArr_setArr, C08.setAt_length]
      · rw [getArr_setArr_ne _ _ _ _ (fun h => he h.symm)]

/-- the LAST clamp of a state `k ∉ {i, v}` holds in the state that `clampStates` returns -/
theorem clampStates_holds (w : State α) (k : String) (hk1 : k ≠ "i") (hk2 : k ≠ "v") (pre post : List (Ext α))
    (inds : List Nat) (vals : List α) (j : Nat) (hj : j < inds.length) (hv : inds.length = vals.length)
    (hnd : inds.Nodup) (hpost : ∀ e ∈ post, e.key ≠ k)
    (hlt : inds[j] < (getArr (clampStates w (pre ++ ⟨k, inds, vals⟩ :: post)) k).length) :
    (getArr (clampStates w (pre ++ ⟨k, inds, vals⟩ :: post)) k)[inds[j]]? = some (vals[j]'(hv ▸ hj)) := by
  have hkk : (k == "i" || k == "v") = false := by simp [hk1, hk2]
  have hform : getArr (clampStates w (pre ++ ⟨k, inds, vals⟩ :: post)) k =
      setAt (getArr (clampStates w pre) k) inds vals := by
    unfold clampStates
    rw [List.foldl_append, List.foldl_cons]
    have := clampStates_getArr_other k post
      (if (k == "i" || k == "v") = true then List.foldl
          (fun acc e => if (e.key == "i" || e.key == "v") = true then acc
            else setArr acc e.key (setAt (getArr acc e.key) e.inds e.vals)) w pre
        else setArr (List.foldl
          (fun acc e => if (e.key == "i" || e.key == "v") = true then acc
            else setArr acc e.key (setAt (getArr acc e.key) e.inds e.vals)) w pre) k
          (setAt (getArr (List.foldl
            (fun acc e => if (e.key == "i" || e.key == "v") = true then acc
              else setArr acc e.key (setAt (getArr acc e.key) e.inds e.vals)) w pre) k) inds vals)) hpost
    unfold clampStates at this
    rw [this, hkk]
    simp only [Bool.false_eq_true, if_false]
    exact C08.getArr_setArr _ _ _
  rw [hform] at hlt ⊢
  rw [C08.setAt_length] at hlt
  exact C08.setAt_get _ inds vals j hj hv hnd hlt

end clamps

/-- the index translation `Sim.step` applies to the externals -/
def toLocal (e : Ext Float) : Ext Float := { e with inds := e.inds.map (Model.Sim.localInd m e.key) }

theorem sim_step_eq (u : State Float) (exts : List (Ext Float)) :
    Model.Sim.step m solver dt u exts =
      Step.step (Model.Sim.mech m dt) (Model.Sim.solve m solver dt) (Model.Sim.iExt m) u (exts.map (toLocal m)) := rfl

/-- (C08) **a voltage clamp holds**: if the externals of a step contain a voltage clamp `("v", inds, vals)` with distinct
indices that is not followed by another voltage clamp in the same step, then the voltage array of the state returned
by `Sim.step` holds `vals[j]` at `inds[j]` (for every `inds[j]` inside the voltage array): the write follows the solve -/
theorem sim_clamp_v_holds (u : State Float) (pre post : List (Ext Float)) (inds : List Nat) (vals : List Float) (j : Nat)
    (hj : j < inds.length) (hv : inds.length = vals.length) (hnd : inds.Nodup)
    (hloc : m.edgeStates.contains "v" = false) (hpost : ∀ e ∈ post, e.key ≠ "v")
    (hlt : inds[j] < (getArr (Model.Sim.step m solver dt u (pre ++ ⟨"v", inds, vals⟩ :: post)) "v").length) :
    (getArr (Model.Sim.step m solver dt u (pre ++ ⟨"v", inds, vals⟩ :: post)) "v")[inds[j]]? = some (vals[j]'(hv ▸ hj)) := by
  have hmap : (pre ++ (⟨"v", inds, vals⟩ : Ext Float) :: post).map (toLocal m) =
      pre.map (toLocal m) ++ ⟨"v", inds, vals⟩ :: post.map (toLocal m) := by
    rw [List.map_append, List.map_cons]
    congr 2
    show (⟨"v", inds.map (Model.Sim.localInd m "v"), vals⟩ : Ext Float) = ⟨"v", inds, vals⟩
    congr 1
    have : ∀ i, Model.Sim.localInd m "v" i = i := by
      intro i
      unfold Model.Sim.localInd
      rw [hloc]
      rfl
    exact (List.map_congr_left (g := id) (fun i _ => this i)).trans (List.map_id inds)
  have hpost' : ∀ e ∈ post.map (toLocal m), e.key ≠ "v" := by
    intro e he
    obtain ⟨e', he', rfl⟩ := List.mem_map.mp he
    exact hpost e' he'
  rw [sim_step_eq, hmap] at hlt ⊢
  exact clampV_holds _ _ _ inds vals j hj hv hnd hpost' hlt

/-- (C08) **a clamp of a non-voltage state is visible in the returned state**: the clamp is written after the mechanism
update, the voltage solve and the voltage clamp only touch `v`.  `li` are the within-type indices the step uses. -/
theorem sim_state_clamp_after_mechanisms (u : State Float) (k : String) (hk1 : k ≠ "i") (hk2 : k ≠ "v")
    (pre post : List (Ext Float)) (inds : List Nat) (vals : List Float) (j : Nat)
    (hj : j < (inds.map (Model.Sim.localInd m k)).length) (hv : (inds.map (Model.Sim.localInd m k)).length = vals.length)
    (hnd : (inds.map (Model.Sim.localInd m k)).Nodup) (hpost : ∀ e ∈ post, e.key ≠ k)
    (hlt : (inds.map (Model.Sim.localInd m k))[j] <
      (getArr (Model.Sim.step m solver dt u (pre ++ ⟨k, inds, vals⟩ :: post)) k).length) :
    (getArr (Model.Sim.step m solver dt u (pre ++ ⟨k, inds, vals⟩ :: post)) k)[(inds.map (Model.Sim.localInd m k))[j]]? =
      some (vals[j]'(hv ▸ hj)) := by
  have hmap : (pre ++ (⟨k, inds, vals⟩ : Ext Float) :: post).map (toLocal m) =
      pre.map (toLocal m) ++ ⟨k, inds.map (Model.Sim.localInd m k), vals⟩ :: post.map (toLocal m) := by
    rw [List.map_append, List.map_cons]
    rfl
  have hpost' : ∀ e ∈ post.map (toLocal m), e.key ≠ k := by
    intro e he
    obtain ⟨e', he', rfl⟩ := List.mem_map.mp he
    exact hpost e' he'
  have hget : ∀ exts' : List (Ext Float),
      getArr (Step.step (Model.Sim.mech m dt) (Model.Sim.solve m solver dt) (Model.Sim.iExt m) u exts') k =
        getArr (clampStates (Model.Sim.mech m dt u (Model.Sim.iExt m exts')) exts') k := by
    intro exts'
    show getArr (clampV (setArr _ "v" _) exts') k = _
    rw [clampV_getArr_ne k hk2, getArr_setArr_ne _ _ _ _ hk2]
  rw [sim_step_eq, hmap, hget] at hlt ⊢
  exact clampStates_holds _ k hk1 hk2 _ _ _ vals j hj hv hnd hpost' hlt

/-! ### 8. uncoupled cells at the solver level (C12) -/

section cells
open JaxleyVerif.Model.Cable

/-- the solve of one cell -/
def solveCell (solver : String) (dt : Float) (c : CellIn Float) : List Float :=
  match solver with
  | "bwd_euler" => stepBwd c dt
  | "crank_nicolson" => stepCN c dt
  | _ => (stepFwd c dt).getD []

/-- (C12) the voltage solve is the concatenation over the cells of the solve of that cell's own data -/
theorem sim_solve_cellwise (m : SimModule) (solver : String) (dt : Float) (uOld uNew : State Float) (iext : List Float) :
    Model.Sim.solve m solver dt uOld uNew iext =
      (List.range m.cells.length).flatMap (fun k => solveCell solver dt
        (Model.Sim.cellIn m k (getArr uOld "v").toArray (getArr uNew Model.Sim.keyGm).toArray
          (getArr uNew Model.Sim.keyKm).toArray iext.toArray)) := rfl

theorem range_map_congr {β : Type} (n : Nat) (f g : Nat → β) (h : ∀ i, i < n → f i = g i) :
    (Array.range n).map f = (Array.range n).map g := by
  apply Array.ext
  · simp
  · intro i h1 h2
    simp at h1
    simp [h i h1]

/-- (C12) the data handed to the solve of cell `k` depends only on cell `k`'s entry of `cells` and on the slices of `comps`,
`v`, `gm`, `km`, `istim` that belong to it -/
theorem cellIn_congr (m m' : SimModule) (k : Nat) (v gm km istim v' gm' km' istim' : Array Float)
    (hc : m.cells.getD k ([], []) = m'.cells.getD k ([], []))
    (hcomps : ∀ i, i < nTotal (m.cells.getD k ([], [])).2 →
      m.comps.getD ((Model.Sim.cellOffsets m).getD k 0 + i) default =
        m'.comps.getD ((Model.Sim.cellOffsets m').getD k 0 + i) default)
    (hsl : ∀ i, i < nTotal (m.cells.getD k ([], [])).2 →
      v.getD ((Model.Sim.cellOffsets m).getD k 0 + i) 0.0 = v'.getD ((Model.Sim.cellOffsets m').getD k 0 + i) 0.0 ∧
      gm.getD ((Model.Sim.cellOffsets m).getD k 0 + i) 0.0 = gm'.getD ((Model.Sim.cellOffsets m').getD k 0 + i) 0.0 ∧
      km.getD ((Model.Sim.cellOffsets m).getD k 0 + i) 0.0 = km'.getD ((Model.Sim.cellOffsets m').getD k 0 + i) 0.0 ∧
      istim.getD ((Model.Sim.cellOffsets m).getD k 0 + i) 0.0 = istim'.getD ((Model.Sim.cellOffsets m').getD k 0 + i) 0.0) :
    Model.Sim.cellIn m k v gm km istim = Model.Sim.cellIn m' k v' gm' km' istim' := by
  unfold Model.Sim.cellIn
  simp only
  rw [← hc]
  congr 1
  · exact range_map_congr _ _ _ hcomps
  · exact range_map_congr _ _ _ (fun i hi => (hsl i hi).2.1)
  · exact range_map_congr _ _ _ (fun i hi => (hsl i hi).2.2.1)
  · exact range_map_congr _ _ _ (fun i hi => (hsl i hi).1)
  · exact range_map_congr _ _ _ (fun i hi => (hsl i hi).2.2.2)

/-- (C12) **independence of uncoupled cells in the solve**: if two modules agree on cell `k` and on the slices of the arrays
that belong to it, block `k` of the solve (the `k`-th summand of the `flatMap` in `sim_solve_cellwise`) is the same -/
theorem sim_cell_block_independent (m m' : SimModule) (solver : String) (dt : Float) (k : Nat)
    (v gm km istim v' gm' km' istim' : Array Float)
    (hc : m.cells.getD k ([], []) = m'.cells.getD k ([], []))
    (hcomps : ∀ i, i < nTotal (m.cells.getD k ([], [])).2 →
      m.comps.getD ((Model.Sim.cellOffsets m).getD k 0 + i) default =
        m'.comps.getD ((Model.Sim.cellOffsets m').getD k 0 + i) default)
    (hsl : ∀ i, i < nTotal (m.cells.getD k ([], [])).2 →
      v.getD ((Model.Sim.cellOffsets m).getD k 0 + i) 0.0 = v'.getD ((Model.Sim.cellOffsets m').getD k 0 + i) 0.0 ∧
      gm.getD ((Model.Sim.cellOffsets m).getD k 0 + i) 0.0 = gm'.getD ((Model.Sim.cellOffsets m').getD k 0 + i) 0.0 ∧
      km.getD ((Model.Sim.cellOffsets m).getD k 0 + i) 0.0 = km'.getD ((Model.Sim.cellOffsets m').getD k 0 + i) 0.0 ∧
      istim.getD ((Model.Sim.cellOffsets m).getD k 0 + i) 0.0 = istim'.getD ((Model.Sim.cellOffsets m').getD k 0 + i) 0.0) :
    solveCell solver dt (Model.Sim.cellIn m k v gm km istim) =
      solveCell solver dt (Model.Sim.cellIn m' k v' gm' km' istim') := by
  rw [cellIn_congr m m' k v gm km istim v' gm' km' istim' hc hcomps hsl]

end cells

/-! ### non-vacuity: one cell, one branch, two compartments, no channels -/

def exM : SimModule :=
  { cells := [([-1], [2])], comps := #[⟨1.0, 10.0, 5000.0, 1.0⟩, ⟨1.0, 10.0, 5000.0, 1.0⟩], nodeParams := [],
    chans := [], syns := [], withinType := #[], edgeStates := [] }

theorem exM_accepts : Model.Sim.accepts exM "bwd_euler" "jaxley.thomas" = true := by decide
example : Model.Sim.accepts exM "crank_nicolson" "jax.sparse" = true := by decide
example : Model.Sim.accepts exM "fwd_euler" "jaxley.thomas" = true := by decide
example : Model.Sim.accepts exM "fwd_euler" "jax.sparse" = false := by decide

/-- the hypotheses of the theorems above are satisfiable: this run is accepted for every `dt`, initial state, number of
steps and set of recordings (no externals), so it returns `recs.length` traces of `nsteps + 1` columns -/
example (dt : Float) (nsteps : Nat) (u0 : State Float) (recs : List (String × Nat)) :
    ∃ out, Model.Sim.integrate exM "bwd_euler" "jaxley.thomas" dt nsteps u0 [] recs = some out ∧
      out.length = recs.length ∧ ∀ tr ∈ out, tr.length = nsteps + 1 := by
  have h : (Model.Sim.integrate exM "bwd_euler" "jaxley.thomas" dt nsteps u0 [] recs).isSome :=
    (sim_integrate_some_iff exM "bwd_euler" "jaxley.thomas" dt nsteps u0 [] recs).mpr ⟨exM_accepts, rfl⟩
  obtain ⟨out, hout⟩ := Option.isSome_iff_exists.mp h
  exact ⟨out, hout, sim_integrate_shape exM "bwd_euler" "jaxley.thomas" dt nsteps u0 [] recs hout⟩

/-- `"v"` is not edge-indexed in this module, as `sim_clamp_v_holds` assumes -/
example : exM.edgeStates.contains "v" = false := by decide

end JaxleyVerif.Props.Sim
