/-
C10 — all ways of setting a parameter are equivalent and touch only what was selected.

Theorems about `Model.Params`:
* `scatter_get`            : after `arr.at[inds].set(vals[:,None])` with pairwise disjoint groups, row `i` holds `vals[g]` if `i` is
                             in group `g` and its old value otherwise — in particular NO row outside the selection changes
* `padGroups_scatter`      : padding unequal groups with the out-of-bounds index changes nothing (F2 after the fix)
* `scatter_eq_set`         : scattering one group with one value = writing that value to exactly these rows (`set` ≡ `data_set` ≡ trainable)
* `applyPstate_last_wins`  : later `make_trainable`/`data_set` entries win on overlapping rows
-/
import Mathlib.Data.List.Basic
import Mathlib.Tactic.Linarith
import JaxleyVerif.Model.Params

namespace JaxleyVerif.Props.C10
open JaxleyVerif.Model.Params
variable {V : Type}

theorem put_length (arr : List V) (i : Nat) (x : V) : (put arr i x).length = arr.length := by
  unfold put; split <;> simp

theorem put_get (arr : List V) (i j : Nat) (x : V) :
    (put arr i x)[j]? = if i = j ∧ j < arr.length then some x else arr[j]? := by
  unfold put
  by_cases h : i < arr.length
  · simp only [h, if_true, List.getElem?_set]
    by_cases hij : i = j
    · subst hij; simp [h]
    · simp [hij]
  · simp only [h, if_false]
    by_cases hij : i = j
    · subst hij; simp [h]
    · simp [hij]

/-- writing one value to a group of rows -/
theorem putAll_get (arr : List V) (g : List Nat) (x : V) (j : Nat) :
    (g.foldl (fun a i => put a i x) arr)[j]? = if j ∈ g ∧ j < arr.length then some x else arr[j]? := by
  induction g generalizing arr with
  | nil => simp
  | cons i is ih =>
    simp only [List.foldl_cons, ih, put_get, put_length, List.mem_cons]
    by_cases hj : j < arr.length
    · by_cases h1 : j ∈ is
      · simp [h1, hj]
      · by_cases h2 : i = j
        · simp [h1, h2, hj]
        · have : ¬ j = i := fun h => h2 h.symm
          simp [h1, h2, this, hj]
    · simp [hj]

theorem putAll_length (arr : List V) (g : List Nat) (x : V) : (g.foldl (fun a i => put a i x) arr).length = arr.length := by
  induction g generalizing arr with
  | nil => rfl
  | cons i is ih => simp [ih, put_length]

/-- **frame + value of a scatter with disjoint groups**: row `j` holds `vals[k]` if it belongs to group `k`, and is
untouched if it belongs to no group. -/
theorem scatter_get (arr : List V) : ∀ (inds : List (List Nat)) (vals : List V) (j : Nat),
    inds.length = vals.length → inds.Pairwise (fun g h => ∀ x, x ∈ g → x ∉ h) → j < arr.length →
    ((∀ g ∈ inds, j ∉ g) → (scatter arr inds vals)[j]? = arr[j]?) ∧
    (∀ k (hk : k < inds.length) (hk' : k < vals.length), j ∈ inds[k] → (scatter arr inds vals)[j]? = some vals[k])
  | [], [], j, _, _, _ => by simp [scatter]
  | g :: gs, v :: vs, j, hlen, hdis, hj => by
    have hlen' : gs.length = vs.length := by simpa using hlen
    have hdis' := (List.pairwise_cons.mp hdis)
    have ih := scatter_get (g.foldl (fun a i => put a i v) arr) gs vs j hlen' hdis'.2 (by rw [putAll_length]; exact hj)
    have e : scatter arr (g :: gs) (v :: vs) = scatter (g.foldl (fun a i => put a i v) arr) gs vs := by
      simp [scatter]
    rw [e]
    constructor
    · intro hno
      rw [ih.1 (fun h hh => hno h (List.mem_cons_of_mem _ hh)), putAll_get]
      have : j ∉ g := hno g (by simp)
      simp [this]
    · intro k hk hk' hmem
      cases k with
      | zero =>
        simp only [List.getElem_cons_zero] at hmem ⊢
        have hno : ∀ h ∈ gs, j ∉ h := fun h hh => hdis'.1 h hh j hmem
        rw [ih.1 hno, putAll_get]; simp [hmem, hj]
      | succ k =>
        simp only [List.getElem_cons_succ] at hmem ⊢
        exact ih.2 k (by simpa using hk) (by simpa using hk') hmem
  | [], _ :: _, _, hlen, _, _ => by simp at hlen
  | _ :: _, [], _, hlen, _, _ => by simp at hlen

/-- a padding index `n ≥ arr.length` is ignored by the scatter -/
theorem put_oob (arr : List V) (n : Nat) (x : V) (h : arr.length ≤ n) : put arr n x = arr := by
  unfold put; simp [Nat.not_lt.mpr h]

theorem pad_noop (a : List V) (k n : Nat) (x : V) (h : a.length ≤ n) :
    (List.replicate k n).foldl (fun a i => put a i x) a = a := by
  induction k with
  | zero => rfl
  | succ k ih => simp only [List.replicate_succ, List.foldl_cons]; rw [put_oob a n x h]; exact ih

theorem putAll_append_pad (arr : List V) (g : List Nat) (k n : Nat) (x : V) (h : arr.length ≤ n) :
    (g ++ List.replicate k n).foldl (fun a i => put a i x) arr = g.foldl (fun a i => put a i x) arr := by
  rw [List.foldl_append]
  exact pad_noop _ k n x (by rw [putAll_length]; exact h)

/-- **padding unequal groups with the out-of-bounds index does not change the scattered array** (F2, fixed):
the padded index array of `make_trainable` scatters exactly like the unpadded groups. -/
theorem padGroups_scatter (arr : List V) (groups : List (List Nat)) (vals : List V) (n : Nat) (h : arr.length ≤ n) :
    scatter arr (padGroups n groups) vals = scatter arr groups vals := by
  unfold padGroups scatter
  generalize groups.foldl (fun a g => max a g.length) 0 = m
  induction groups generalizing arr vals with
  | nil => rfl
  | cons g gs ih =>
    cases vals with
    | nil => simp
    | cons v vs =>
      simp only [List.map_cons, List.zip_cons_cons, List.foldl_cons]
      rw [putAll_append_pad arr g _ n v h]
      exact ih _ vs (by rw [putAll_length]; exact h)

/-- `set` ≡ `data_set` ≡ a trainable parameter: scattering ONE group with ONE value writes that value to exactly the
rows of the group and leaves every other row as it was -/
theorem scatter_eq_set (arr : List V) (rows : List Nat) (x : V) (j : Nat) :
    (scatter arr [rows] [x])[j]? = if j ∈ rows ∧ j < arr.length then some x else arr[j]? := by
  simp only [scatter, List.zip_cons_cons, List.zip_nil_right, List.foldl_cons, List.foldl_nil]
  exact putAll_get arr rows x j

theorem scatter_length (arr : List V) (inds : List (List Nat)) (vals : List V) :
    (scatter arr inds vals).length = arr.length := by
  unfold scatter
  induction inds generalizing arr vals with
  | nil => simp
  | cons g gs ih =>
    cases vals with
    | nil => simp
    | cons v vs => simp only [List.zip_cons_cons, List.foldl_cons]; rw [ih, putAll_length]

/-- later entries of `pstate` (later `make_trainable` / `data_set` calls) win on the rows they cover -/
theorem applyPstate_last_wins (arr : List V) (ps : List (List (List Nat) × List V)) (rows : List Nat) (x : V) (j : Nat)
    (hj : j ∈ rows) (hlt : j < arr.length) :
    (applyPstate arr (ps ++ [([rows], [x])]))[j]? = some x := by
  unfold applyPstate
  rw [List.foldl_append]
  simp only [List.foldl_cons, List.foldl_nil]
  rw [scatter_eq_set]
  have hl : ∀ a : List V, (ps.foldl (fun a p => scatter a p.1 p.2) a).length = a.length := by
    induction ps with
    | nil => intro a; rfl
    | cons p ps ih => intro a; simp only [List.foldl_cons]; rw [ih]; exact scatter_length _ _ _
  simp [hj, hl arr, hlt]

/-- rows not covered by the last entry keep what the earlier entries produced -/
theorem applyPstate_frame (arr : List V) (ps : List (List (List Nat) × List V)) (rows : List Nat) (x : V) (j : Nat)
    (hj : j ∉ rows) :
    (applyPstate arr (ps ++ [([rows], [x])]))[j]? = (applyPstate arr ps)[j]? := by
  unfold applyPstate
  rw [List.foldl_append]
  simp only [List.foldl_cons, List.foldl_nil]
  rw [scatter_eq_set]; simp [hj]

/-- the F2 witness after the fix: branches with [2,1,3] compartments, trainable radius on branches 0 and 1 -/
example : scatter [1, 1, 1, 1, 1, 1] (padGroups 6 [[0, 1], [2]]) [5, 7] = [5, 5, 7, 1, 1, 1] := by decide

end JaxleyVerif.Props.C10
