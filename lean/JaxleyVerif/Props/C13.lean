/-
C13 — `set_ncomp` changes only the chosen branch, preserves its total length and its uniform properties, keeps every
other row (and its order), and remaps group labels so that every group denotes the same branches as before.

Theorems about `Model.SetNcomp` (all for an arbitrary field `α` of characteristic zero, hence in particular for `ℝ`;
see section `RealInstances` for the instantiation at `ℝ`):

* `set_ncomp_length`           : `n ≠ 0` → the `n` new rows of length `total / n` sum up to `total`
* `set_ncomp_length_table`     : `sumLen new = sumLen old` with `old`/`new` literally as in the definition of `setNcomp`
* `set_ncomp_length_branch`    : under the block hypothesis, the rows of branch `b` have the same total length before and after
* `set_ncomp_total_length`     : the whole table has the same total length before and after
* `set_ncomp_frame`            : rows of other branches are unchanged, in the same order (holds WITHOUT any hypothesis)
* `set_ncomp_rows_of_branch`   : under the block hypothesis the result is `pre ++ new ++ post`, and `new` is described row by row
* `set_ncomp_eq_direct`        : `setNcomp` on a directly built table = the table built directly with the new `ncomp`
                                 (needs only `0 < s.ncomp`; `n ≠ 0` is not needed: for `n = 0` both sides have no row of that branch)
* `set_ncomp_groups`           : the remapped group touches exactly the branches the old group touched
                                 (`set_ncomp_group` per group, `branchesOf_remap` pure list form; no bound on labels needed)
* a concrete example over `ℚ`.
-/
import Mathlib.Data.Real.Basic
import Mathlib.Data.List.Basic
import Mathlib.Tactic.FieldSimp
import Mathlib.Tactic.Ring
import Mathlib.Tactic.Linarith
import JaxleyVerif.Model.SetNcomp

namespace JaxleyVerif.Props.C13
open JaxleyVerif.Model.SetNcomp

variable {α P : Type}

/-! ## `sumLen` -/
section SumLen
variable [Field α]

theorem foldl_len (rows : List (Row α P)) (a : α) :
    rows.foldl (fun a r => a + r.len) a = a + rows.foldl (fun a r => a + r.len) 0 := by
  induction rows generalizing a with
  | nil => simp
  | cons r rs ih =>
    simp only [List.foldl_cons]
    rw [ih (a + r.len), ih (0 + r.len)]; ring

@[simp] theorem sumLen_nil : sumLen ([] : List (Row α P)) = 0 := rfl

theorem sumLen_cons (r : Row α P) (rs : List (Row α P)) : sumLen (r :: rs) = r.len + sumLen rs := by
  unfold sumLen
  simp only [List.foldl_cons]
  rw [foldl_len]; ring

theorem sumLen_append (l₁ l₂ : List (Row α P)) : sumLen (l₁ ++ l₂) = sumLen l₁ + sumLen l₂ := by
  induction l₁ with
  | nil => simp
  | cons r rs ih => rw [List.cons_append, sumLen_cons, sumLen_cons, ih]; ring

/-- a list of rows that all have length `x` has total length `(number of rows) * x` -/
theorem sumLen_map_const {β : Type} (l : List β) (f : β → Row α P) (x : α) (h : ∀ j, (f j).len = x) :
    sumLen (l.map f) = (l.length : α) * x := by
  induction l with
  | nil => simp
  | cons a l ih => rw [List.map_cons, sumLen_cons, ih, h, List.length_cons]; push_cast; ring

end SumLen

/-! ## The pieces of the definition -/
section Pieces
variable [Field α] [Inhabited P]

/-- `before` of the definition of `setNcomp` -/
def beforeOf (c : CellT α P) (b : Nat) : List (Row α P) := c.rows.takeWhile (fun r => r.branch != b)
/-- `old` of the definition of `setNcomp` -/
def oldOf (c : CellT α P) (b : Nat) : List (Row α P) :=
  (c.rows.dropWhile (fun r => r.branch != b)).takeWhile (fun r => r.branch == b)
/-- `after` of the definition of `setNcomp` -/
def afterOf (c : CellT α P) (b : Nat) : List (Row α P) :=
  (c.rows.dropWhile (fun r => r.branch != b)).dropWhile (fun r => r.branch == b)
/-- `new` of the definition of `setNcomp` -/
def newOf (c : CellT α P) (b n : Nat) (radiusOf : Nat → α) : List (Row α P) :=
  (List.range n).map (fun j =>
    { branch := b, len := sumLen (oldOf c b) / (n : α), rad := radiusOf j,
      props := match (oldOf c b).head? with | some r => r.props | none => default })
/-- `remap` of the definition of `setNcomp`, with `start`, `k` as parameters -/
def remapOf (start k n : Nat) (g : List Nat) : List Nat :=
  g.filter (· < start) ++
    (if g.any (fun r => start ≤ r && r < start + k) then (List.range n).map (· + start) else []) ++
    (g.filter (fun r => start + k ≤ r)).map (fun r => r - k + n)

/-- the names above are literally the `let`-bound pieces of `setNcomp` -/
theorem setNcomp_rows (c : CellT α P) (b n : Nat) (radiusOf : Nat → α) :
    (setNcomp c b n radiusOf).rows = beforeOf c b ++ newOf c b n radiusOf ++ afterOf c b := rfl

theorem setNcomp_groups (c : CellT α P) (b n : Nat) (radiusOf : Nat → α) :
    (setNcomp c b n radiusOf).groups =
      c.groups.map (fun g => (g.1, remapOf (beforeOf c b).length (oldOf c b).length n g.2)) := rfl

omit [Field α] [Inhabited P] in
theorem rows_decomp (c : CellT α P) (b : Nat) : c.rows = beforeOf c b ++ oldOf c b ++ afterOf c b := by
  unfold beforeOf oldOf afterOf
  rw [List.append_assoc, List.takeWhile_append_dropWhile, List.takeWhile_append_dropWhile]

omit [Field α] [Inhabited P] in
theorem mem_takeWhile_pos {β : Type} {p : β → Bool} {l : List β} {x : β} (hx : x ∈ l.takeWhile p) : p x = true := by
  induction l with
  | nil => simp at hx
  | cons a l ih =>
    by_cases ha : p a = true
    · rw [List.takeWhile_cons_of_pos ha] at hx
      rcases List.mem_cons.mp hx with rfl | hx
      · exact ha
      · exact ih hx
    · rw [List.takeWhile_cons_of_neg ha] at hx; simp at hx

omit [Field α] [Inhabited P] in
theorem oldOf_branch (c : CellT α P) (b : Nat) : ∀ x ∈ oldOf c b, x.branch = b := by
  intro x hx
  have := mem_takeWhile_pos hx
  simpa using this

theorem newOf_branch (c : CellT α P) (b n : Nat) (radiusOf : Nat → α) : ∀ x ∈ newOf c b n radiusOf, x.branch = b := by
  intro x hx
  simp only [newOf, List.mem_map] at hx
  obtain ⟨j, -, rfl⟩ := hx
  rfl

@[simp] theorem newOf_length (c : CellT α P) (b n : Nat) (radiusOf : Nat → α) : (newOf c b n radiusOf).length = n := by
  simp [newOf]

end Pieces

/-! ## 1. Length -/
section Length
variable [Field α] [CharZero α]

/-- **C13.1** `n` rows of length `total / n` have total length `total` (`n ≠ 0`). -/
theorem set_ncomp_length (b n : Nat) (hn : n ≠ 0) (total : α) (radiusOf : Nat → α) (p : P) :
    sumLen ((List.range n).map (fun j => ({ branch := b, len := total / (n : α), rad := radiusOf j, props := p } : Row α P)))
      = total := by
  have hn' : (n : α) ≠ 0 := Nat.cast_ne_zero.mpr hn
  rw [sumLen_map_const _ _ (total / (n : α)) (fun _ => rfl), List.length_range]
  field_simp

variable [Inhabited P]

/-- **C13.1, table level** with `old`, `new` exactly the `let`-bound lists of the definition (see `setNcomp_rows`). -/
theorem set_ncomp_length_table (c : CellT α P) (b n : Nat) (hn : n ≠ 0) (radiusOf : Nat → α) :
    sumLen (newOf c b n radiusOf) = sumLen (oldOf c b) :=
  set_ncomp_length b n hn _ radiusOf _

/-- the total length of the whole cell is unchanged -/
theorem set_ncomp_total_length (c : CellT α P) (b n : Nat) (hn : n ≠ 0) (radiusOf : Nat → α) :
    sumLen (setNcomp c b n radiusOf).rows = sumLen c.rows := by
  rw [setNcomp_rows]
  conv_rhs => rw [rows_decomp c b]
  simp only [sumLen_append, set_ncomp_length_table c b n hn]

end Length

/-! ## 2. Frame -/
section Frame
variable [Field α] [Inhabited P]

omit [Field α] [Inhabited P] in
theorem filter_ne_of_all_eq (l : List (Row α P)) (b : Nat) (h : ∀ x ∈ l, x.branch = b) :
    l.filter (fun x => x.branch != b) = [] := by
  rw [List.filter_eq_nil_iff]; intro x hx; simp [h x hx]

/-- **C13.2** rows that do not belong to branch `b` are unchanged and keep their order.
Stronger than requested: no contiguity hypothesis is needed, because `setNcomp` only ever replaces a run of rows of
branch `b` by rows of branch `b`.  (The version with the block hypothesis is the special case `set_ncomp_frame_block`.) -/
theorem set_ncomp_frame (c : CellT α P) (b n : Nat) (radiusOf : Nat → α) :
    (setNcomp c b n radiusOf).rows.filter (fun x => x.branch != b) = c.rows.filter (fun x => x.branch != b) := by
  rw [setNcomp_rows]
  conv_rhs => rw [rows_decomp c b]
  simp only [List.filter_append, filter_ne_of_all_eq _ b (oldOf_branch c b),
    filter_ne_of_all_eq _ b (newOf_branch c b n radiusOf)]

end Frame

/-! ## The block hypothesis -/

/-- the rows of branch `b` form the contiguous block `blk` of `rows` -/
structure IsBlock (rows : List (Row α P)) (b : Nat) (pre blk post : List (Row α P)) : Prop where
  eq : rows = pre ++ blk ++ post
  pre_ne : ∀ x ∈ pre, x.branch ≠ b
  blk_eq : ∀ x ∈ blk, x.branch = b
  post_ne : ∀ x ∈ post, x.branch ≠ b

section Block
variable [Field α] [Inhabited P]
variable {c : CellT α P} {b : Nat} {pre blk post : List (Row α P)}

omit [Field α] [Inhabited P] in
theorem takeWhile_ne_block (h : IsBlock c.rows b pre blk post) (hne : blk ≠ []) : beforeOf c b = pre := by
  unfold beforeOf
  rw [h.eq, List.append_assoc, List.takeWhile_append_of_pos (fun a ha => by simpa using h.pre_ne a ha)]
  obtain ⟨x, xs, rfl⟩ := List.exists_cons_of_ne_nil hne
  rw [List.cons_append, List.takeWhile_cons_of_neg (by simp [h.blk_eq x (by simp)])]
  simp

omit [Field α] [Inhabited P] in
theorem dropWhile_ne_block (h : IsBlock c.rows b pre blk post) (hne : blk ≠ []) :
    c.rows.dropWhile (fun r => r.branch != b) = blk ++ post := by
  rw [h.eq, List.append_assoc, List.dropWhile_append_of_pos (fun a ha => by simpa using h.pre_ne a ha)]
  obtain ⟨x, xs, rfl⟩ := List.exists_cons_of_ne_nil hne
  rw [List.cons_append, List.dropWhile_cons_of_neg (by simp [h.blk_eq x (by simp)])]

omit [Field α] [Inhabited P] in
theorem takeWhile_eq_post (h : IsBlock c.rows b pre blk post) :
    (blk ++ post).takeWhile (fun r => r.branch == b) = blk := by
  rw [List.takeWhile_append_of_pos (fun a ha => by simpa using h.blk_eq a ha)]
  cases hp : post with
  | nil => simp
  | cons x xs =>
    rw [List.takeWhile_cons_of_neg (by simpa using h.post_ne x (by simp [hp]))]; simp

omit [Field α] [Inhabited P] in
theorem dropWhile_eq_post (h : IsBlock c.rows b pre blk post) :
    (blk ++ post).dropWhile (fun r => r.branch == b) = post := by
  rw [List.dropWhile_append_of_pos (fun a ha => by simpa using h.blk_eq a ha)]
  cases hp : post with
  | nil => simp
  | cons x xs =>
    rw [List.dropWhile_cons_of_neg (by simpa using h.post_ne x (by simp [hp]))]

omit [Field α] [Inhabited P] in
theorem oldOf_block (h : IsBlock c.rows b pre blk post) (hne : blk ≠ []) : oldOf c b = blk := by
  unfold oldOf; rw [dropWhile_ne_block h hne, takeWhile_eq_post h]

omit [Field α] [Inhabited P] in
theorem afterOf_block (h : IsBlock c.rows b pre blk post) (hne : blk ≠ []) : afterOf c b = post := by
  unfold afterOf; rw [dropWhile_ne_block h hne, dropWhile_eq_post h]

/-- the new rows of branch `b`, described explicitly -/
def newRows (b n : Nat) (radiusOf : Nat → α) (blk : List (Row α P)) (hne : blk ≠ []) : List (Row α P) :=
  (List.range n).map (fun j =>
    { branch := b, len := sumLen blk / (n : α), rad := radiusOf j, props := (blk.head hne).props })

theorem newOf_block (h : IsBlock c.rows b pre blk post) (hne : blk ≠ []) (n : Nat) (radiusOf : Nat → α) :
    newOf c b n radiusOf = newRows b n radiusOf blk hne := by
  unfold newOf newRows
  rw [oldOf_block h hne, List.head?_eq_some_head hne]

/-- **C13.2 with the block hypothesis** (special case of `set_ncomp_frame`); also valid for `blk = []`. -/
theorem set_ncomp_frame_block (_h : IsBlock c.rows b pre blk post) (n : Nat) (radiusOf : Nat → α) :
    (setNcomp c b n radiusOf).rows.filter (fun x => x.branch != b) = c.rows.filter (fun x => x.branch != b) :=
  set_ncomp_frame c b n radiusOf

/-- **C13.3** under the block hypothesis (`blk ≠ []`):
the result is `pre ++ new ++ post`; `new` has exactly `n` rows; row `j` of `new` has `branch = b`, the props of the
first old row, length `sumLen blk / n` and radius `radiusOf j`; and `new` is exactly the list of rows of branch `b`
of the result. -/
theorem set_ncomp_rows_of_branch (h : IsBlock c.rows b pre blk post) (hne : blk ≠ []) (n : Nat) (radiusOf : Nat → α) :
    (setNcomp c b n radiusOf).rows = pre ++ newRows b n radiusOf blk hne ++ post ∧
    (setNcomp c b n radiusOf).rows.filter (fun x => x.branch == b) = newRows b n radiusOf blk hne ∧
    (newRows b n radiusOf blk hne).length = n ∧
    ∀ j, j < n → (newRows b n radiusOf blk hne)[j]? =
      some { branch := b, len := sumLen blk / (n : α), rad := radiusOf j, props := (blk.head hne).props } := by
  have hrows : (setNcomp c b n radiusOf).rows = pre ++ newRows b n radiusOf blk hne ++ post := by
    rw [setNcomp_rows, takeWhile_ne_block h hne, afterOf_block h hne, newOf_block h hne]
  refine ⟨hrows, ?_, by simp [newRows], ?_⟩
  · rw [hrows]
    have h1 : pre.filter (fun x => x.branch == b) = [] := by
      rw [List.filter_eq_nil_iff]; intro x hx; simpa using h.pre_ne x hx
    have h2 : post.filter (fun x => x.branch == b) = [] := by
      rw [List.filter_eq_nil_iff]; intro x hx; simpa using h.post_ne x hx
    have h3 : (newRows b n radiusOf blk hne).filter (fun x => x.branch == b) = newRows b n radiusOf blk hne := by
      rw [List.filter_eq_self]; intro x hx
      simp only [newRows, List.mem_map] at hx
      obtain ⟨j, -, rfl⟩ := hx
      simp
    simp [List.filter_append, h1, h2, h3]
  · intro j hj
    simp [newRows, hj]

omit [Field α] [Inhabited P] in
/-- the rows of branch `b` in the old table are exactly `blk` -/
theorem filter_eq_block (h : IsBlock c.rows b pre blk post) :
    c.rows.filter (fun x => x.branch == b) = blk := by
  have h1 : pre.filter (fun x => x.branch == b) = [] := by
    rw [List.filter_eq_nil_iff]; intro x hx; simpa using h.pre_ne x hx
  have h2 : post.filter (fun x => x.branch == b) = [] := by
    rw [List.filter_eq_nil_iff]; intro x hx; simpa using h.post_ne x hx
  have h3 : blk.filter (fun x => x.branch == b) = blk := by
    rw [List.filter_eq_self]; intro x hx; simpa using h.blk_eq x hx
  rw [h.eq]; simp [List.filter_append, h1, h2, h3]

/-- **C13.1, branch level**: the rows of branch `b` have the same total length before and after. -/
theorem set_ncomp_length_branch [CharZero α] (h : IsBlock c.rows b pre blk post) (hne : blk ≠ []) (n : Nat) (hn : n ≠ 0)
    (radiusOf : Nat → α) :
    sumLen ((setNcomp c b n radiusOf).rows.filter (fun x => x.branch == b)) =
      sumLen (c.rows.filter (fun x => x.branch == b)) := by
  rw [(set_ncomp_rows_of_branch h hne n radiusOf).2.1, filter_eq_block h]
  exact set_ncomp_length b n hn _ radiusOf _

end Block

/-! ## 4. `setNcomp` on a directly built table = direct construction with the new `ncomp` -/
section Direct
variable [Field α]

/-- the rows `build` creates for spec `s` at branch index `i` -/
def rowsOf (s : BranchSpec α P) (i : Nat) : List (Row α P) :=
  (List.range s.ncomp).map (fun _ =>
    ({ branch := i, len := s.length / (s.ncomp : α), rad := s.radius, props := s.props } : Row α P))

/-- `build` with branch indices starting at `k` -/
def buildFrom (k : Nat) (specs : List (BranchSpec α P)) : List (Row α P) :=
  (specs.zipIdx k).flatMap (fun sb => rowsOf sb.1 sb.2)

theorem build_eq (specs : List (BranchSpec α P)) : build specs = buildFrom 0 specs := rfl

theorem buildFrom_append (k : Nat) (xs ys : List (BranchSpec α P)) :
    buildFrom k (xs ++ ys) = buildFrom k xs ++ buildFrom (k + xs.length) ys := by
  simp [buildFrom, List.zipIdx_append, List.flatMap_append]

theorem buildFrom_single (k : Nat) (s : BranchSpec α P) : buildFrom k [s] = rowsOf s k := by
  simp [buildFrom]

theorem mem_rowsOf {s : BranchSpec α P} {i : Nat} {x : Row α P} (hx : x ∈ rowsOf s i) :
    x.branch = i ∧ x.props = s.props ∧ x.len = s.length / (s.ncomp : α) := by
  simp only [rowsOf, List.mem_map] at hx
  obtain ⟨j, -, rfl⟩ := hx
  exact ⟨rfl, rfl, rfl⟩

/-- rows built from `specs` starting at index `k` carry branch indices in `[k, k + specs.length)` -/
theorem mem_buildFrom {k : Nat} {specs : List (BranchSpec α P)} {x : Row α P} (hx : x ∈ buildFrom k specs) :
    k ≤ x.branch ∧ x.branch < k + specs.length := by
  simp only [buildFrom, List.mem_flatMap] at hx
  obtain ⟨⟨s, i⟩, hsi, hxs⟩ := hx
  have := List.mem_zipIdx hsi
  rw [(mem_rowsOf hxs).1]
  exact ⟨this.1, this.2.1⟩

theorem build_three (pre post : List (BranchSpec α P)) (s : BranchSpec α P) :
    build (pre ++ [s] ++ post) = buildFrom 0 pre ++ rowsOf s pre.length ++ buildFrom (pre.length + 1) post := by
  rw [build_eq, buildFrom_append, buildFrom_append, buildFrom_single]
  simp

variable [CharZero α] [Inhabited P]

/-- **C13.4** changing the number of compartments of branch `pre.length` of the directly built table gives the table
built directly from the specification with `ncomp := n`.  Only `0 < s.ncomp` is needed (not positivity of the other
`ncomp`s). -/
theorem set_ncomp_eq_direct (pre post : List (BranchSpec α P)) (s : BranchSpec α P) (gs : List (String × List Nat))
    (n : Nat) (hs : 0 < s.ncomp) :
    (setNcomp ⟨build (pre ++ [s] ++ post), gs⟩ pre.length n (fun _ => s.radius)).rows
      = build (pre ++ [{ s with ncomp := n }] ++ post) := by
  have hblock : IsBlock (CellT.mk (build (pre ++ [s] ++ post)) gs).rows pre.length
      (buildFrom 0 pre) (rowsOf s pre.length) (buildFrom (pre.length + 1) post) :=
    { eq := build_three pre post s
      pre_ne := fun x hx => by have := mem_buildFrom hx; omega
      blk_eq := fun x hx => (mem_rowsOf hx).1
      post_ne := fun x hx => by have := mem_buildFrom hx; omega }
  have hne : rowsOf s pre.length ≠ [] := by
    intro h0
    have : (rowsOf s pre.length).length = s.ncomp := by simp [rowsOf]
    rw [h0] at this; simp at this; omega
  rw [(set_ncomp_rows_of_branch hblock hne n _).1, build_three]
  congr 2
  have hsum : sumLen (rowsOf s pre.length) = s.length :=
    set_ncomp_length pre.length s.ncomp (by omega) s.length (fun _ => s.radius) s.props
  have hprops : ((rowsOf s pre.length).head hne).props = s.props := (mem_rowsOf (List.head_mem hne)).2.1
  simp only [newRows, hsum, hprops]
  rfl

end Direct

/-! ## 5. Groups -/
section Groups

theorem get3_left {β : Type} (A B C : List β) (i : Nat) (h : i < A.length) : (A ++ B ++ C)[i]? = A[i]? := by
  rw [List.append_assoc, List.getElem?_append_left h]

theorem get3_mid {β : Type} (A B C : List β) (i : Nat) (h1 : A.length ≤ i) (h2 : i < A.length + B.length) :
    (A ++ B ++ C)[i]? = B[i - A.length]? := by
  rw [List.append_assoc, List.getElem?_append_right h1, List.getElem?_append_left (by omega)]

theorem get3_right {β : Type} (A B C : List β) (i : Nat) (h : A.length + B.length ≤ i) :
    (A ++ B ++ C)[i]? = C[i - A.length - B.length]? := by
  rw [List.append_assoc, List.getElem?_append_right (by omega), List.getElem?_append_right (by omega)]

theorem mem_branchesOf (rows : List (Row α P)) (g : List Nat) (x : Nat) :
    x ∈ branchesOf rows g ↔ ∃ i ∈ g, ∃ r, rows[i]? = some r ∧ r.branch = x := by
  simp [branchesOf, List.mem_eraseDups, List.mem_filterMap]

theorem mem_remapOf (s k n : Nat) (g : List Nat) (i : Nat) :
    i ∈ remapOf s k n g ↔
      (i ∈ g ∧ i < s) ∨ ((∃ r ∈ g, s ≤ r ∧ r < s + k) ∧ ∃ j, j < n ∧ j + s = i) ∨
      (∃ r ∈ g, s + k ≤ r ∧ r - k + n = i) := by
  unfold remapOf
  by_cases hw : (g.any (fun r => decide (s ≤ r) && decide (r < s + k))) = true
  · have hw' : ∃ r ∈ g, s ≤ r ∧ r < s + k := by simpa using hw
    simp only [hw, if_true, List.mem_append, List.mem_filter, List.mem_map, List.mem_range, decide_eq_true_eq]
    constructor
    · rintro ((h | h) | h)
      · exact Or.inl h
      · exact Or.inr (Or.inl ⟨hw', h⟩)
      · obtain ⟨r, ⟨hr, hk⟩, rfl⟩ := h; exact Or.inr (Or.inr ⟨r, hr, hk, rfl⟩)
    · rintro (h | ⟨-, h⟩ | ⟨r, hr, hk, rfl⟩)
      · exact Or.inl (Or.inl h)
      · exact Or.inl (Or.inr h)
      · exact Or.inr ⟨r, ⟨hr, hk⟩, rfl⟩
  · have hw' : ¬ ∃ r ∈ g, s ≤ r ∧ r < s + k := by simpa using hw
    simp only [hw, List.mem_append, List.mem_filter, List.mem_map, decide_eq_true_eq]
    constructor
    · rintro ((h | h) | h)
      · exact Or.inl h
      · simp at h
      · obtain ⟨r, ⟨hr, hk⟩, rfl⟩ := h; exact Or.inr (Or.inr ⟨r, hr, hk, rfl⟩)
    · rintro (h | ⟨h, -⟩ | ⟨r, hr, hk, rfl⟩)
      · exact Or.inl (Or.inl h)
      · exact absurd h hw'
      · exact Or.inr ⟨r, ⟨hr, hk⟩, rfl⟩

/-- pure list form of the group theorem: replace the block `blk` (all of branch `b`, non-empty) by a non-empty block
`new` (all of branch `b`) and remap the labels -/
theorem branchesOf_remap (pre blk new post : List (Row α P)) (b : Nat)
    (hblk : ∀ x ∈ blk, x.branch = b) (hnew : ∀ x ∈ new, x.branch = b) (hnew0 : new ≠ []) (g : List Nat) (x : Nat) :
    x ∈ branchesOf (pre ++ new ++ post) (remapOf pre.length blk.length new.length g) ↔
      x ∈ branchesOf (pre ++ blk ++ post) g := by
  have hn0 : 0 < new.length := List.length_pos_iff.mpr hnew0
  rw [mem_branchesOf, mem_branchesOf]
  constructor
  · rintro ⟨i, hi, r, hr, rfl⟩
    rcases (mem_remapOf _ _ _ _ _).mp hi with ⟨hig, hlt⟩ | ⟨⟨q, hqg, hq1, hq2⟩, j, hj, rfl⟩ | ⟨q, hqg, hq, rfl⟩
    · refine ⟨i, hig, r, ?_, rfl⟩
      rw [get3_left _ _ _ _ hlt] at hr; rw [get3_left _ _ _ _ hlt]; exact hr
    · -- a new row of branch `b`; the old group contained a row of the block
      rw [get3_mid _ _ _ _ (by omega) (by omega)] at hr
      have hrb : r.branch = b := hnew r (List.mem_of_getElem? hr)
      have hq : q - pre.length < blk.length := by omega
      refine ⟨q, hqg, blk[q - pre.length], ?_, ?_⟩
      · rw [get3_mid _ _ _ _ hq1 hq2]; exact List.getElem?_eq_getElem hq
      · rw [hrb]; exact hblk _ (List.getElem_mem hq)
    · refine ⟨q, hqg, r, ?_, rfl⟩
      rw [get3_right _ _ _ _ (by omega)] at hr
      rw [get3_right _ _ _ _ hq, ← hr]
      congr 1; omega
  · rintro ⟨i, hi, r, hr, rfl⟩
    by_cases h1 : i < pre.length
    · refine ⟨i, (mem_remapOf _ _ _ _ _).mpr (Or.inl ⟨hi, h1⟩), r, ?_, rfl⟩
      rw [get3_left _ _ _ _ h1] at hr; rw [get3_left _ _ _ _ h1]; exact hr
    · by_cases h2 : i < pre.length + blk.length
      · rw [get3_mid _ _ _ _ (by omega) h2] at hr
        have hrb : r.branch = b := hblk r (List.mem_of_getElem? hr)
        refine ⟨0 + pre.length,
          (mem_remapOf _ _ _ _ _).mpr (Or.inr (Or.inl ⟨⟨i, hi, by omega, h2⟩, 0, hn0, rfl⟩)), new[0], ?_, ?_⟩
        · rw [get3_mid _ _ _ _ (by omega) (by omega)]
          simp
        · rw [hrb]; exact hnew _ (List.getElem_mem hn0)
      · refine ⟨i - blk.length + new.length,
          (mem_remapOf _ _ _ _ _).mpr (Or.inr (Or.inr ⟨i, hi, by omega, rfl⟩)), r, ?_, rfl⟩
        rw [get3_right _ _ _ _ (by omega)] at hr
        rw [get3_right _ _ _ _ (by omega), ← hr]
        congr 1; omega

variable [Field α] [Inhabited P]
variable {c : CellT α P} {b : Nat} {pre blk post : List (Row α P)}

/-- the remapped groups, under the block hypothesis -/
theorem setNcomp_groups_block (h : IsBlock c.rows b pre blk post) (hne : blk ≠ []) (n : Nat) (radiusOf : Nat → α) :
    (setNcomp c b n radiusOf).groups = c.groups.map (fun g => (g.1, remapOf pre.length blk.length n g.2)) := by
  rw [setNcomp_groups, takeWhile_ne_block h hne, oldOf_block h hne]

/-- per-group form of **C13.5** -/
theorem set_ncomp_group (h : IsBlock c.rows b pre blk post) (hne : blk ≠ []) (n : Nat) (hn : n ≠ 0)
    (radiusOf : Nat → α) (g : List Nat) (x : Nat) :
    x ∈ branchesOf (setNcomp c b n radiusOf).rows (remapOf pre.length blk.length n g) ↔ x ∈ branchesOf c.rows g := by
  have hlen : (newRows b n radiusOf blk hne).length = n := by simp [newRows]
  have hnew : ∀ y ∈ newRows b n radiusOf blk hne, y.branch = b := by
    intro y hy
    simp only [newRows, List.mem_map] at hy
    obtain ⟨j, -, rfl⟩ := hy; rfl
  have hnew0 : newRows b n radiusOf blk hne ≠ [] := by
    intro h0; rw [h0] at hlen; simp at hlen; exact hn hlen.symm
  have := branchesOf_remap pre blk (newRows b n radiusOf blk hne) post b h.blk_eq hnew hnew0 g x
  rw [hlen] at this
  rw [(set_ncomp_rows_of_branch h hne n radiusOf).1, h.eq]
  exact this

/-- **C13.5** under the block hypothesis with `blk ≠ []` and `n ≠ 0`: the `i`-th group of the result has the same
name as the `i`-th group of `c`, and touches exactly the same branches.
Stronger than requested: the hypothesis "all labels `< c.rows.length`" is not needed, because an out-of-range label is
remapped to an out-of-range label and `branchesOf` ignores both. -/
theorem set_ncomp_groups (h : IsBlock c.rows b pre blk post) (hne : blk ≠ []) (n : Nat) (hn : n ≠ 0)
    (radiusOf : Nat → α) (i : Nat) (name : String) (g : List Nat) (hg : c.groups[i]? = some (name, g)) :
    ∃ g', (setNcomp c b n radiusOf).groups[i]? = some (name, g') ∧
      ∀ x, x ∈ branchesOf (setNcomp c b n radiusOf).rows g' ↔ x ∈ branchesOf c.rows g := by
  refine ⟨remapOf pre.length blk.length n g, ?_, fun x => set_ncomp_group h hne n hn radiusOf g x⟩
  rw [setNcomp_groups_block h hne, List.getElem?_map, hg]; rfl

theorem set_ncomp_groups_length (c : CellT α P) (b n : Nat) (radiusOf : Nat → α) :
    (setNcomp c b n radiusOf).groups.length = c.groups.length := by
  simp [setNcomp_groups]

end Groups

/-! ## The theorems at `α := ℝ` -/
section RealInstances
variable [Inhabited P]

example (b n : Nat) (hn : n ≠ 0) (total : ℝ) (radiusOf : Nat → ℝ) (p : P) :
    sumLen ((List.range n).map (fun j => ({ branch := b, len := total / (n : ℝ), rad := radiusOf j, props := p } : Row ℝ P)))
      = total := set_ncomp_length b n hn total radiusOf p

example (c : CellT ℝ P) (b n : Nat) (hn : n ≠ 0) (radiusOf : Nat → ℝ) :
    sumLen (setNcomp c b n radiusOf).rows = sumLen c.rows := set_ncomp_total_length c b n hn radiusOf

example (c : CellT ℝ P) (b n : Nat) (radiusOf : Nat → ℝ) :
    (setNcomp c b n radiusOf).rows.filter (fun x => x.branch != b) = c.rows.filter (fun x => x.branch != b) :=
  set_ncomp_frame c b n radiusOf

example (pre post : List (BranchSpec ℝ P)) (s : BranchSpec ℝ P) (gs : List (String × List Nat)) (n : Nat)
    (hs : 0 < s.ncomp) :
    (setNcomp ⟨build (pre ++ [s] ++ post), gs⟩ pre.length n (fun _ => s.radius)).rows
      = build (pre ++ [{ s with ncomp := n }] ++ post) := set_ncomp_eq_direct pre post s gs n hs

end RealInstances

/-! ## 6. Non-vacuity: a concrete table over `ℚ` -/
section Example

/-- three branches (lengths 10, 20, 30) with two compartments each; group `"g"` = the two rows of branch 2 -/
def exCell : CellT ℚ Unit :=
  ⟨build [⟨2, 10, 1, ()⟩, ⟨2, 20, 1, ()⟩, ⟨2, 30, 1, ()⟩], [("g", [4, 5])]⟩

example : branchesOf exCell.rows [4, 5] = [2] := by decide
example : (setNcomp exCell 0 4 (fun _ => 1)).groups = [("g", [6, 7])] := by decide
/-- after `branch(0).set_ncomp(4)` the group denotes branch 2 again -/
example : (setNcomp exCell 0 4 (fun _ => 1)).groups.map (fun g => branchesOf (setNcomp exCell 0 4 (fun _ => 1)).rows g.2)
    = [[2]] := by decide
example : (setNcomp exCell 0 4 (fun _ => 1)).rows.map (·.branch) = [0, 0, 0, 0, 1, 1, 2, 2] := by decide
example : (setNcomp exCell 0 4 (fun _ => 1)).rows.map (·.len) = [5/2, 5/2, 5/2, 5/2, 10, 10, 15, 15] := by
  have h := set_ncomp_eq_direct (α := ℚ) (P := Unit) [] [⟨2, 20, 1, ()⟩, ⟨2, 30, 1, ()⟩] ⟨2, 10, 1, ()⟩
    [("g", [4, 5])] 4 (by decide)
  simp only [List.nil_append, List.length_nil, List.singleton_append] at h
  rw [show exCell = ⟨build [⟨2, 10, 1, ()⟩, ⟨2, 20, 1, ()⟩, ⟨2, 30, 1, ()⟩], [("g", [4, 5])]⟩ from rfl, h]
  norm_num [build, List.zipIdx, List.range_succ]
  simp [List.replicate]

end Example

end JaxleyVerif.Props.C13
