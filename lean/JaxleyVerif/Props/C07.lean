/-
C07 — simulations compose in time.

`run = fold step`.  Splitting, continuing from returned states and manual stepping are properties of the fold; the
state returned with `return_states=True` is the state after the LAST RETURNED step for EVERY checkpoint layout whose
product covers the run (padding steps are masked — this is the behaviour after the F6 fix; before it the returned
state was the one after `prod(checkpoint_lengths)` steps).
-/
import JaxleyVerif.Lemmas.Scan

namespace JaxleyVerif.Props.C07
open JaxleyVerif.Model
variable {σ ι ο : Type}

/-- one scan over `xs ++ ys` = a scan over `xs`, then a scan over `ys` from the reached state -/
theorem run_append (f : σ → ι → σ × ο) (s : σ) (xs ys : List ι) :
    scan f s (xs ++ ys) = ((scan f (scan f s xs).1 ys).1, (scan f s xs).2 ++ (scan f (scan f s xs).1 ys).2) :=
  scan_append f s xs ys

/-- the state returned with `return_states=True` is the state at the last returned time point, for every layout -/
theorem returned_state (step : σ → ι → σ) (rec0 : σ → ο) (zero : ι) (s : σ) (xs : List ι)
    (ls : List Nat) (hls : ls ≠ []) (hlen : xs.length ≤ prodL ls) :
    (integrateCore step rec0 zero s xs (some ls)).2 = xs.foldl step s := by
  simp only [integrateCore]
  rw [nested_eq_scan _ ls hls _ _ (by simp; omega), scan_append]
  simp only
  rw [scan_padding, scan_body_unpadded]

theorem returned_state_no_checkpoint (step : σ → ι → σ) (rec0 : σ → ο) (zero : ι) (s : σ) (xs : List ι) :
    (integrateCore step rec0 zero s xs none).2 = xs.foldl step s := by
  simp only [integrateCore, prodL, Nat.mul_one, Nat.sub_self, List.replicate_zero, List.append_nil, nested]
  exact scan_body_unpadded step rec0 s xs

/-- `integrate` over `xs ++ ys` equals `integrate(return_states)` over `xs` followed by `integrate(all_states=…)`
over `ys`: recordings agree after dropping the duplicated initial column, and so do the returned states -/
theorem integrate_split (step : σ → ι → σ) (rec0 : σ → ο) (zero : ι) (s : σ) (xs ys : List ι) :
    let a := integrateCore step rec0 zero s xs none
    let b := integrateCore step rec0 zero a.2 ys none
    (integrateCore step rec0 zero s (xs ++ ys) none).1 = a.1 ++ b.1.tail ∧
    (integrateCore step rec0 zero s (xs ++ ys) none).2 = b.2 := by
  intro a b
  have ha : a.2 = xs.foldl step s := returned_state_no_checkpoint step rec0 zero s xs
  refine ⟨?_, ?_⟩
  · simp only [a, b, integrateCore, prodL, Nat.mul_one, Nat.sub_self, List.replicate_zero, List.append_nil, nested,
      List.map_append, scan_append, List.length_append, List.tail_cons]
    have h1 := scan_length (body step rec0) s (xs.map (fun x => (x, false)))
    have h2 := scan_length (body step rec0) (scan (body step rec0) s (xs.map (fun x => (x, false)))).1 (ys.map (fun x => (x, false)))
    rw [List.take_of_length_le (by simp [h1, h2]), List.take_of_length_le (by simp [h1]),
        List.take_of_length_le (by simp [h2])]
    simp
  · rw [returned_state_no_checkpoint, show b.2 = ys.foldl step a.2 from returned_state_no_checkpoint step rec0 zero a.2 ys,
        ha, List.foldl_append]

/-- repeated splitting: any partition of the inputs into consecutive calls gives the flat run -/
theorem integrate_split_many (f : σ → ι → σ × ο) (s : σ) (parts : List (List ι)) :
    scanChunks (scan f) s parts = scan f s parts.flatten :=
  scanChunks_eq f (scan f) parts (fun _ _ _ => rfl) s

/-- stepping manually with `step_fn` from `init_fn`: column `k` of `integrate` is the recorded state after `k`
manual steps, and the final carry is the manual final state -/
theorem manual_stepping_eq_integrate (step : σ → ι → σ) (rec0 : σ → ο) (zero : ι) (s : σ) (xs : List ι) :
    (integrateCore step rec0 zero s xs none).1
        = rec0 s :: (List.range xs.length).map (fun k => rec0 ((xs.take (k + 1)).foldl step s)) ∧
    (integrateCore step rec0 zero s xs none).2 = xs.foldl step s := by
  refine ⟨?_, returned_state_no_checkpoint step rec0 zero s xs⟩
  simp only [integrateCore, prodL, Nat.mul_one, Nat.sub_self, List.replicate_zero, List.append_nil, nested]
  rw [List.take_of_length_le (by simp [scan_length])]
  congr 1
  induction xs generalizing s with
  | nil => rfl
  | cons x xs ih =>
    simp only [List.map_cons, scan, body, List.length_cons, List.range_succ_eq_map, List.map_cons, List.map_map]
    simp only [Bool.false_eq_true, if_false, ih]
    simp [Function.comp_def]

/-- the F6 witness after the fix: layout `[4,4]`, 10 inputs — the returned state is the one after 10 steps -/
theorem returned_state_witness :
    (integrateCore (fun (s : Nat) (_ : Nat) => s + 1) id 0 0 (List.replicate 10 0) (some [4, 4])).2 = 10 := by decide

end JaxleyVerif.Props.C07
