/-
C03 — gates stay finite and in [0,1] and follow the exact exponential update.

All statements are about the GENERATED kernels (`JaxleyVerif.Gen`, re-translated from jaxley's source on
every run) over ℝ.  Division by zero is not hidden: every theorem carries the generated `…Defined`
predicate (or the equivalent explicit voltage condition proved by the `…_defined_iff` theorems), and the
singular voltages are exhibited by the `…_singular` theorems.
-/
import JaxleyVerif.Lemmas.Gate
import JaxleyVerif.Spec.GateSpec

namespace JaxleyVerif.Props.C03
open JaxleyVerif JaxleyVerif.Gen JaxleyVerif.Spec

/-! ## 1. the clipped exponential -/

theorem save_exp_eq_exp_of_le {y : ℝ} (h : y ≤ 20) : save_exp y = Real.exp y := save_exp_eq h
theorem save_exp_positive (y : ℝ) : 0 < save_exp y := save_exp_pos y
theorem save_exp_monotone {a b : ℝ} (h : a ≤ b) : save_exp a ≤ save_exp b := save_exp_mono h

/-! ## 2. generic gate updates -/

private theorem exp_neg_mem {t : ℝ} (ht : 0 < t) : 0 < Real.exp (-t) ∧ Real.exp (-t) < 1 :=
  ⟨Real.exp_pos _, Real.exp_lt_one_iff.mpr (by linarith)⟩

/-- `solve_gate_exponential` with positive rates is a correct gate update. -/
theorem two_rate_gate_ok {x dt a b : ℝ} (ha : 0 < a) (hb : 0 < b) (hdt : 0 < dt)
    (hx0 : 0 ≤ x) (hx1 : x ≤ 1) :
    GateOK (solve_gate_exponential x dt a b) x dt (xinfOf a b) (tauOf a b) := by
  have hab : 0 < a + b := by linarith
  have hcl := solve_gate_exponential_closed (x := x) hdt.le hab
  have hi0 : 0 ≤ a / (a + b) := (div_pos ha hab).le
  have hi1 : a / (a + b) ≤ 1 := (div_le_one hab).mpr (by linarith)
  have he := exp_neg_mem (mul_pos hdt hab)
  have e : -dt * (a + b) = -(dt * (a + b)) := by ring
  refine ⟨?_, ?_, ?_⟩
  · rw [hcl]; unfold gateClosedForm xinfOf tauOf
    simp only [transc_exp_real]
    congr 2
    norm_num
  · rw [hcl, e]; exact convex_update_mem hx0 hx1 hi0 hi1 he.1.le he.2.le
  · refine ⟨Real.exp (-(dt * (a + b))), he.1, he.2, ?_⟩
    rw [hcl, e]; unfold xinfOf; ring

/-- `solve_inf_gate_exponential` with a steady state in `[0,1]` and positive time constant is a correct
gate update. -/
theorem inf_gate_ok {x dt sinf tau : ℝ} (hs0 : 0 ≤ sinf) (hs1 : sinf ≤ 1) (htau : 0 < tau) (hdt : 0 < dt)
    (hx0 : 0 ≤ x) (hx1 : x ≤ 1) :
    GateOK (solve_inf_gate_exponential x dt sinf tau) x dt sinf tau := by
  have hcl := solve_inf_gate_exponential_closed (x := x) (sinf := sinf) hdt.le htau
  have he := exp_neg_mem (div_pos hdt htau)
  have e : -dt / tau = -(dt / tau) := by ring
  refine ⟨?_, ?_, ?_⟩
  · rw [hcl]; unfold gateClosedForm; simp only [transc_exp_real]
  · rw [hcl, e]; exact convex_update_mem hx0 hx1 hs0 hs1 he.1.le he.2.le
  · exact ⟨Real.exp (-(dt / tau)), he.1, he.2, by rw [hcl, e]; ring⟩

/-! ## 3. rates of every built-in gate are positive wherever defined; exact singular sets -/

-- HH
theorem HH_m_defined_iff {v : ℝ} : HH.m_gate.Defined v ↔ v ≠ -40 := by
  unfold HH.m_gate.Defined
  rw [vtrap_defined_iff (by norm_num)]
  constructor <;> intro h h' <;> apply h <;> (norm_num at *; linarith)

theorem HH_m_rates_pos {v : ℝ} (hv : v ≠ -40) : 0 < (HH.m_gate v).1 ∧ 0 < (HH.m_gate v).2 := by
  unfold HH.m_gate
  refine ⟨mul_pos (by norm_num) (vtrap_pos ?_ (by norm_num)), mul_pos (by norm_num) (save_exp_pos _)⟩
  intro h; apply hv; norm_num at h; linarith

theorem HH_h_rates_pos (v : ℝ) : 0 < (HH.h_gate v).1 ∧ 0 < (HH.h_gate v).2 := by
  unfold HH.h_gate
  refine ⟨mul_pos (by norm_num) (save_exp_pos _), div_pos (by norm_num) ?_⟩
  have := save_exp_pos (-(v + 35.0) / 10.0); norm_num at *; linarith

theorem HH_n_defined_iff {v : ℝ} : HH.n_gate.Defined v ↔ v ≠ -55 := by
  unfold HH.n_gate.Defined
  rw [vtrap_defined_iff (by norm_num)]
  constructor <;> intro h h' <;> apply h <;> (norm_num at *; linarith)

theorem HH_n_rates_pos {v : ℝ} (hv : v ≠ -55) : 0 < (HH.n_gate v).1 ∧ 0 < (HH.n_gate v).2 := by
  unfold HH.n_gate
  refine ⟨mul_pos (by norm_num) (vtrap_pos ?_ (by norm_num)), mul_pos (by norm_num) (save_exp_pos _)⟩
  intro h; apply hv; norm_num at h; linarith

-- Na
theorem Na_m_defined_iff {v vt : ℝ} : Na.m_gate.Defined v vt ↔ (v ≠ vt + 13 ∧ v ≠ vt + 40) := by
  unfold Na.m_gate.Defined
  simp only [efun_defined_iff]
  constructor
  · rintro ⟨h1, h2⟩
    exact ⟨fun h => h1 (by rw [h]; norm_num), fun h => h2 (by rw [h]; norm_num)⟩
  · rintro ⟨h1, h2⟩
    exact ⟨fun h => h1 (by norm_num at h; linarith), fun h => h2 (by norm_num at h; linarith)⟩

theorem Na_m_rates_pos {v vt : ℝ} (h13 : v ≠ vt + 13) (h40 : v ≠ vt + 40) :
    0 < (Na.m_gate v vt).1 ∧ 0 < (Na.m_gate v vt).2 := by
  unfold Na.m_gate
  refine ⟨div_pos (mul_pos (by norm_num) (efun_pos ?_)) (by norm_num),
          div_pos (mul_pos (by norm_num) (efun_pos ?_)) (by norm_num)⟩
  · intro h; apply h13; norm_num at h; linarith
  · intro h; apply h40; norm_num at h; linarith

theorem Na_h_rates_pos (v vt : ℝ) : 0 < (Na.h_gate v vt).1 ∧ 0 < (Na.h_gate v vt).2 := by
  unfold Na.h_gate
  refine ⟨mul_pos (by norm_num) (save_exp_pos _), div_pos (by norm_num) ?_⟩
  have := save_exp_pos (-(v - vt - 40.0) / 5.0); norm_num at *; linarith

-- K
theorem K_n_defined_iff {v vt : ℝ} : K.n_gate.Defined v vt ↔ v ≠ vt + 15 := by
  unfold K.n_gate.Defined
  simp only [efun_defined_iff]
  constructor
  · intro h1 h; exact h1 (by rw [h]; norm_num)
  · intro h1 h; exact h1 (by norm_num at h; linarith)

theorem K_n_rates_pos {v vt : ℝ} (h15 : v ≠ vt + 15) : 0 < (K.n_gate v vt).1 ∧ 0 < (K.n_gate v vt).2 := by
  unfold K.n_gate
  refine ⟨div_pos (mul_pos (by norm_num) (efun_pos ?_)) (by norm_num), mul_pos (by norm_num) (save_exp_pos _)⟩
  intro h; apply h15; norm_num at h; linarith

-- CaL
theorem CaL_q_defined_iff {v : ℝ} : CaL.q_gate.Defined v ↔ v ≠ -27 := by
  unfold CaL.q_gate.Defined
  simp only [efun_defined_iff]
  constructor
  · intro h1 h; exact h1 (by rw [h]; norm_num)
  · intro h1 h; exact h1 (by norm_num at h; linarith)

theorem CaL_q_rates_pos {v : ℝ} (hv : v ≠ -27) : 0 < (CaL.q_gate v).1 ∧ 0 < (CaL.q_gate v).2 := by
  unfold CaL.q_gate
  refine ⟨mul_pos (mul_pos (by norm_num) (efun_pos ?_)) (by norm_num), mul_pos (by norm_num) (save_exp_pos _)⟩
  intro h; apply hv; norm_num at h; linarith

theorem CaL_r_rates_pos (v : ℝ) : 0 < (CaL.r_gate v).1 ∧ 0 < (CaL.r_gate v).2 := by
  unfold CaL.r_gate
  refine ⟨mul_pos (by norm_num) (save_exp_pos _), div_pos (by norm_num) ?_⟩
  have := save_exp_pos ((-v - 15.0) / 28.0); norm_num at *; linarith

/-- a logistic of the clipped exponential lies strictly between 0 and 1 -/
private theorem logistic_mem (z : ℝ) : 0 < 1 / (1 + save_exp z) ∧ 1 / (1 + save_exp z) < 1 := by
  have := save_exp_pos z
  exact ⟨by positivity, by rw [div_lt_one (by linarith)]; linarith⟩

-- Km
theorem Km_p_gate_ok {v taumax : ℝ} (ht : 0 < taumax) :
    0 < (Km.p_gate v taumax).1 ∧ (Km.p_gate v taumax).1 < 1 ∧ 0 < (Km.p_gate v taumax).2 := by
  unfold Km.p_gate
  have h := logistic_mem (-0.1 * (v + 35.0))
  have h1 := save_exp_pos (0.05 * (v + 35.0))
  have h2 := save_exp_pos (-0.05 * (v + 35.0))
  refine ⟨by norm_num at *; exact h.1, by norm_num at *; exact h.2, div_pos ht ?_⟩
  positivity

-- CaT
theorem CaT_u_gate_ok (v vx : ℝ) :
    0 < (CaT.u_gate v vx).1 ∧ (CaT.u_gate v vx).1 < 1 ∧ 0 < (CaT.u_gate v vx).2 := by
  unfold CaT.u_gate
  have h := logistic_mem ((v + vx + 81.0) / 4)
  have h1 := save_exp_pos ((v + vx + 113.2) / 5.0)
  have h2 := save_exp_pos ((v + vx + 84.0) / 3.2)
  refine ⟨by norm_num at *; exact h.1, by norm_num at *; exact h.2, div_pos ?_ ?_⟩ <;> positivity

/-! ## 4. the `update_states` of every built-in mechanism returns correct gate updates

Each theorem exhibits the complete returned dictionary (so nothing else is written) and a `GateOK`
certificate for every entry, under the exact non-singularity condition of the mechanism. -/

section
variable (pfx : String) (st pr : String → ℝ) {dt v : ℝ}

theorem HH_update_states_ok (hdt : 0 < dt) (hm : v ≠ -40) (hn : v ≠ -55)
    (h01 : ∀ k, 0 ≤ st k ∧ st k ≤ 1) :
    ∃ m' h' n', HH.update_states pfx st dt v pr
        = [(pfx ++ "_m", m'), (pfx ++ "_h", h'), (pfx ++ "_n", n')] ∧
      GateOK m' (st (pfx ++ "_m")) dt (xinfOf (HH.m_gate v).1 (HH.m_gate v).2) (tauOf (HH.m_gate v).1 (HH.m_gate v).2) ∧
      GateOK h' (st (pfx ++ "_h")) dt (xinfOf (HH.h_gate v).1 (HH.h_gate v).2) (tauOf (HH.h_gate v).1 (HH.h_gate v).2) ∧
      GateOK n' (st (pfx ++ "_n")) dt (xinfOf (HH.n_gate v).1 (HH.n_gate v).2) (tauOf (HH.n_gate v).1 (HH.n_gate v).2) :=
  ⟨_, _, _, rfl,
    two_rate_gate_ok (HH_m_rates_pos hm).1 (HH_m_rates_pos hm).2 hdt (h01 _).1 (h01 _).2,
    two_rate_gate_ok (HH_h_rates_pos v).1 (HH_h_rates_pos v).2 hdt (h01 _).1 (h01 _).2,
    two_rate_gate_ok (HH_n_rates_pos hn).1 (HH_n_rates_pos hn).2 hdt (h01 _).1 (h01 _).2⟩

theorem Na_update_states_ok (hdt : 0 < dt) (h13 : v ≠ pr "vt" + 13) (h40 : v ≠ pr "vt" + 40)
    (h01 : ∀ k, 0 ≤ st k ∧ st k ≤ 1) :
    ∃ m' h', Na.update_states pfx st dt v pr = [(pfx ++ "_m", m'), (pfx ++ "_h", h')] ∧
      GateOK m' (st (pfx ++ "_m")) dt (xinfOf (Na.m_gate v (pr "vt")).1 (Na.m_gate v (pr "vt")).2)
        (tauOf (Na.m_gate v (pr "vt")).1 (Na.m_gate v (pr "vt")).2) ∧
      GateOK h' (st (pfx ++ "_h")) dt (xinfOf (Na.h_gate v (pr "vt")).1 (Na.h_gate v (pr "vt")).2)
        (tauOf (Na.h_gate v (pr "vt")).1 (Na.h_gate v (pr "vt")).2) :=
  ⟨_, _, rfl,
    two_rate_gate_ok (Na_m_rates_pos h13 h40).1 (Na_m_rates_pos h13 h40).2 hdt (h01 _).1 (h01 _).2,
    two_rate_gate_ok (Na_h_rates_pos v _).1 (Na_h_rates_pos v _).2 hdt (h01 _).1 (h01 _).2⟩

theorem K_update_states_ok (hdt : 0 < dt) (h15 : v ≠ pr "vt" + 15) (h01 : ∀ k, 0 ≤ st k ∧ st k ≤ 1) :
    ∃ n', K.update_states pfx st dt v pr = [(pfx ++ "_n", n')] ∧
      GateOK n' (st (pfx ++ "_n")) dt (xinfOf (K.n_gate v (pr "vt")).1 (K.n_gate v (pr "vt")).2)
        (tauOf (K.n_gate v (pr "vt")).1 (K.n_gate v (pr "vt")).2) :=
  ⟨_, rfl, two_rate_gate_ok (K_n_rates_pos h15).1 (K_n_rates_pos h15).2 hdt (h01 _).1 (h01 _).2⟩

theorem CaL_update_states_ok (hdt : 0 < dt) (hq : v ≠ -27) (h01 : ∀ k, 0 ≤ st k ∧ st k ≤ 1) :
    ∃ q' r', CaL.update_states pfx st dt v pr = [(pfx ++ "_q", q'), (pfx ++ "_r", r')] ∧
      GateOK q' (st (pfx ++ "_q")) dt (xinfOf (CaL.q_gate v).1 (CaL.q_gate v).2) (tauOf (CaL.q_gate v).1 (CaL.q_gate v).2) ∧
      GateOK r' (st (pfx ++ "_r")) dt (xinfOf (CaL.r_gate v).1 (CaL.r_gate v).2) (tauOf (CaL.r_gate v).1 (CaL.r_gate v).2) :=
  ⟨_, _, rfl,
    two_rate_gate_ok (CaL_q_rates_pos hq).1 (CaL_q_rates_pos hq).2 hdt (h01 _).1 (h01 _).2,
    two_rate_gate_ok (CaL_r_rates_pos v).1 (CaL_r_rates_pos v).2 hdt (h01 _).1 (h01 _).2⟩

theorem Km_update_states_ok (hdt : 0 < dt) (ht : 0 < pr (pfx ++ "_taumax")) (h01 : ∀ k, 0 ≤ st k ∧ st k ≤ 1) :
    ∃ p', Km.update_states pfx st dt v pr = [(pfx ++ "_p", p')] ∧
      GateOK p' (st (pfx ++ "_p")) dt (Km.p_gate v (pr (pfx ++ "_taumax"))).1 (Km.p_gate v (pr (pfx ++ "_taumax"))).2 :=
  have h := Km_p_gate_ok (v := v) ht
  ⟨_, rfl, inf_gate_ok h.1.le h.2.1.le h.2.2 hdt (h01 _).1 (h01 _).2⟩

theorem CaT_update_states_ok (hdt : 0 < dt) (h01 : ∀ k, 0 ≤ st k ∧ st k ≤ 1) :
    ∃ u', CaT.update_states pfx st dt v pr = [(pfx ++ "_u", u')] ∧
      GateOK u' (st (pfx ++ "_u")) dt (CaT.u_gate v (pr (pfx ++ "_vx"))).1 (CaT.u_gate v (pr (pfx ++ "_vx"))).2 :=
  have h := CaT_u_gate_ok v (pr (pfx ++ "_vx"))
  ⟨_, rfl, inf_gate_ok h.1.le h.2.1.le h.2.2 hdt (h01 _).1 (h01 _).2⟩

theorem Leak_update_states_ok : Leak.update_states st dt v pr = [] := rfl

/-- steady state and time constant used by both graded synapses (`v_th = -35`, `Δ = 10`) -/
noncomputable def synSinf (vpre : ℝ) : ℝ := 1.0 / (1.0 + save_exp ((-35.0 - vpre) / 10.0))

theorem synSinf_mem (vpre : ℝ) : 0 < synSinf vpre ∧ synSinf vpre < 1 := by
  have := logistic_mem ((-35.0 - vpre) / 10.0)
  unfold synSinf; norm_num at *; exact this

theorem Ionotropic_update_states_ok {vpre vpost : ℝ} (hdt : 0 < dt) (hk : 0 < pr (pfx ++ "_k_minus"))
    (h01 : ∀ k, 0 ≤ st k ∧ st k ≤ 1) :
    ∃ s', IonotropicSynapse.update_states pfx st dt vpre vpost pr = [(pfx ++ "_s", s')] ∧
      GateOK s' (st (pfx ++ "_s")) dt (synSinf vpre) ((1 - synSinf vpre) / pr (pfx ++ "_k_minus")) := by
  have h := synSinf_mem vpre
  have htau : 0 < (1 - synSinf vpre) / pr (pfx ++ "_k_minus") := div_pos (by linarith) hk
  refine ⟨_, rfl, ?_⟩
  have := inf_gate_ok (x := st (pfx ++ "_s")) h.1.le h.2.le htau hdt (h01 _).1 (h01 _).2
  convert this using 1
  unfold solve_inf_gate_exponential synSinf
  norm_num

theorem TestSynapse_update_states_ok {vpre vpost : ℝ} (hdt : 0 < dt) (h01 : ∀ k, 0 ≤ st k ∧ st k ≤ 1) :
    ∃ c', TestSynapse.update_states pfx st dt vpre vpost pr = [(pfx ++ "_c", c')] ∧
      GateOK c' (st (pfx ++ "_c")) dt (synSinf vpre) ((1 - synSinf vpre) / (1 / 40)) := by
  have h := synSinf_mem vpre
  have htau : 0 < (1 - synSinf vpre) / (1 / 40) := div_pos (by linarith) (by norm_num)
  refine ⟨_, rfl, ?_⟩
  have := inf_gate_ok (x := st (pfx ++ "_c")) h.1.le h.2.le htau hdt (h01 _).1 (h01 _).2
  convert this using 1
  unfold solve_inf_gate_exponential synSinf
  norm_num

end

/-! ## 5. the singular voltages (removable 0/0): the generated kernels are NOT defined there

These are the inputs excluded by the hypotheses above; on the implementation they evaluate to NaN
(known finding F4, replayed by the harness). -/

theorem HH_m_singular : ¬ HH.m_gate.Defined (-40 : ℝ) := fun h => HH_m_defined_iff.mp h rfl
theorem HH_n_singular : ¬ HH.n_gate.Defined (-55 : ℝ) := fun h => HH_n_defined_iff.mp h rfl
theorem Na_m_singular_alpha (vt : ℝ) : ¬ Na.m_gate.Defined (vt + 13) vt := fun h => (Na_m_defined_iff.mp h).1 rfl
theorem Na_m_singular_beta (vt : ℝ) : ¬ Na.m_gate.Defined (vt + 40) vt := fun h => (Na_m_defined_iff.mp h).2 rfl
theorem K_n_singular (vt : ℝ) : ¬ K.n_gate.Defined (vt + 15) vt := fun h => K_n_defined_iff.mp h rfl
theorem CaL_q_singular : ¬ CaL.q_gate.Defined (-27 : ℝ) := fun h => CaL_q_defined_iff.mp h rfl

/-! ## 6. non-vacuity: the hypotheses are satisfiable by ordinary inputs -/

example : ((-65 : ℝ) ≠ -40) ∧ ((-65 : ℝ) ≠ -55) ∧ (0 : ℝ) < 0.025 := by norm_num
example : ∃ m' h' n', HH.update_states "HH" (fun _ => (0.2 : ℝ)) 0.025 (-65) (fun _ => 0)
    = [("HH_m", m'), ("HH_h", h'), ("HH_n", n')] ∧ 0 ≤ m' ∧ m' ≤ 1 := by
  obtain ⟨m', h', n', e, hm, _, _⟩ := HH_update_states_ok "HH" (fun _ => (0.2 : ℝ)) (fun _ => 0)
    (dt := 0.025) (v := -65) (by norm_num) (by norm_num) (by norm_num) (fun _ => by norm_num)
  exact ⟨m', h', n', e, hm.mem⟩

end JaxleyVerif.Props.C03
