/-
C17 — parameter transforms are bounded, monotone bijections.

Scalar transforms (`Gen.*Transform.*`) are re-translated from jaxley/optimize/transforms.py on every run,
including the constructor field assignments (`init_width`, `init_lower`, …).  Combinators are the hand model
`Model.Transforms` (tied to the code by the correspondence harness).
-/
import JaxleyVerif.Lemmas.Gate
import JaxleyVerif.Model.Transforms

namespace JaxleyVerif.Props.C17
open JaxleyVerif JaxleyVerif.Gen JaxleyVerif.Model

/-! ## Sigmoid -/

/-- the value computed by `SigmoidTransform(lower, upper).forward` -/
noncomputable def sigF (lower upper x : ℝ) : ℝ :=
  SigmoidTransform.forward (SigmoidTransform.init_lower lower upper) (SigmoidTransform.init_width lower upper) x
noncomputable def sigI (lower upper y : ℝ) : ℝ :=
  SigmoidTransform.inverse (SigmoidTransform.init_lower lower upper) (SigmoidTransform.init_width lower upper) y

theorem sigF_eq (lower upper x : ℝ) : sigF lower upper x = lower + (upper - lower) * (1 / (1 + save_exp (-x))) := by
  unfold sigF SigmoidTransform.forward SigmoidTransform.init_lower SigmoidTransform.init_width
  norm_num

theorem sigmoid_bounds {lower upper : ℝ} (h : lower < upper) (x : ℝ) :
    lower < sigF lower upper x ∧ sigF lower upper x < upper := by
  rw [sigF_eq]
  have hp := save_exp_pos (-x)
  have h1 : 0 < 1 / (1 + save_exp (-x)) := by positivity
  have h2 : 1 / (1 + save_exp (-x)) < 1 := by rw [div_lt_one (by linarith)]; linarith
  constructor <;> nlinarith

theorem sigmoid_mono {lower upper : ℝ} (h : lower < upper) {x y : ℝ} (hxy : x ≤ y) :
    sigF lower upper x ≤ sigF lower upper y := by
  rw [sigF_eq, sigF_eq]
  have hx := save_exp_pos (-x); have hy := save_exp_pos (-y)
  have hm : save_exp (-y) ≤ save_exp (-x) := save_exp_mono (by linarith)
  have : 1 / (1 + save_exp (-x)) ≤ 1 / (1 + save_exp (-y)) :=
    one_div_le_one_div_of_le (by linarith) (by linarith)
  nlinarith

theorem sigmoid_strict_mono {lower upper : ℝ} (h : lower < upper) {x y : ℝ} (hxy : x < y) (hx20 : -20 ≤ x) :
    sigF lower upper x < sigF lower upper y := by
  rw [sigF_eq, sigF_eq]
  have hx := save_exp_pos (-x); have hy := save_exp_pos (-y)
  have hm : save_exp (-y) < save_exp (-x) := save_exp_strictMono (by linarith) (by linarith)
  have : 1 / (1 + save_exp (-x)) < 1 / (1 + save_exp (-y)) :=
    one_div_lt_one_div_of_lt (by linarith) (by linarith)
  nlinarith

/-- `inverse (forward x) = x` wherever the clip is inactive (`x ≥ −20`) -/
theorem sigmoid_roundtrip_partial {lower upper : ℝ} (h : lower < upper) {x : ℝ} (hx : -20 ≤ x) :
    sigI lower upper (sigF lower upper x) = x := by
  have hw : upper - lower ≠ 0 := by linarith
  rw [sigF_eq, save_exp_eq (by linarith)]
  unfold sigI SigmoidTransform.inverse SigmoidTransform.init_lower SigmoidTransform.init_width
  have hE := Real.exp_pos (-x)
  have h1 : (lower + (upper - lower) * (1 / (1 + Real.exp (-x))) - lower) / (upper - lower) = 1 / (1 + Real.exp (-x)) := by
    field_simp; ring
  simp only [h1, transc_log_real]
  have h2 : (1.0:ℝ) / (1 / (1 + Real.exp (-x))) - 1.0 = Real.exp (-x) := by norm_num
  rw [h2, Real.log_exp]; ring

/-- `forward (inverse y) = y` for `y` strictly inside the bounds and not closer to `lower` than the clip allows -/
theorem sigmoid_roundtrip_inv_partial {lower upper y : ℝ} (h : lower < upper)
    (hy1 : lower + (upper - lower) / (1 + Real.exp 20) ≤ y) (hy2 : y < upper) :
    sigF lower upper (sigI lower upper y) = y := by
  have hw : 0 < upper - lower := by linarith
  have hE20 := Real.exp_pos 20
  set t := (y - lower) / (upper - lower) with ht
  have ht0 : 0 < t := by
    apply div_pos _ hw
    have : 0 < (upper - lower) / (1 + Real.exp 20) := by positivity
    linarith
  have ht1 : t < 1 := by rw [ht, div_lt_one hw]; linarith
  have htlow : 1 / (1 + Real.exp 20) ≤ t := by
    rw [ht, div_le_div_iff₀ (by positivity) hw]
    have := (div_le_iff₀ (by positivity : (0:ℝ) < 1 + Real.exp 20)).mp (by linarith : (upper - lower) / (1 + Real.exp 20) ≤ y - lower)
    linarith
  have hpos : 0 < 1 / t - 1 := by
    have : 1 < 1 / t := by rw [lt_div_iff₀ ht0]; linarith
    linarith
  have hinv : sigI lower upper y = -Real.log (1 / t - 1) := by
    unfold sigI SigmoidTransform.inverse SigmoidTransform.init_lower SigmoidTransform.init_width
    simp only [transc_log_real]; norm_num [ht]
  rw [hinv, sigF_eq, neg_neg]
  have hle : Real.log (1 / t - 1) ≤ 20 := by
    rw [← Real.log_exp 20]
    apply Real.log_le_log hpos
    have : 1 / t ≤ 1 + Real.exp 20 := by
      rw [div_le_iff₀ ht0]
      have := (div_le_iff₀ (by positivity : (0:ℝ) < 1 + Real.exp 20)).mp htlow
      linarith
    linarith
  rw [save_exp_eq hle, Real.exp_log hpos]
  have : 1 + (1 / t - 1) = 1 / t := by ring
  rw [this, one_div_one_div, ht]
  field_simp
  ring

/-- beyond the clip the round trip saturates (known finding F11): `inverse (forward (−30)) = −20` -/
theorem sigmoid_roundtrip_counterexample : sigI 0 1 (sigF 0 1 (-30)) = -20 := by
  rw [sigF_eq, save_exp_clipped (by norm_num)]
  unfold sigI SigmoidTransform.inverse SigmoidTransform.init_lower SigmoidTransform.init_width
  simp only [transc_log_real]
  have hE := Real.exp_pos 20
  have : (1.0:ℝ) / ((0 + (1 - 0) * (1 / (1 + Real.exp 20)) - 0) / (1 - 0)) - 1.0 = Real.exp 20 := by
    norm_num
  rw [this, Real.log_exp]

/-! ## Softplus -/

noncomputable def spF (lower x : ℝ) : ℝ := SoftplusTransform.forward (SoftplusTransform.init_lower lower) x
noncomputable def spI (lower y : ℝ) : ℝ := SoftplusTransform.inverse (SoftplusTransform.init_lower lower) y

theorem spF_eq (lower x : ℝ) : spF lower x = Real.log (1 + save_exp x) + lower := by
  unfold spF SoftplusTransform.forward SoftplusTransform.init_lower; simp

theorem spI_eq (lower y : ℝ) : spI lower y = Real.log (save_exp (y - lower) - 1) := by
  unfold spI SoftplusTransform.inverse SoftplusTransform.init_lower; norm_num

theorem softplus_bounds (lower x : ℝ) : lower < spF lower x := by
  rw [spF_eq]
  have := Real.log_pos (by have := save_exp_pos x; linarith : (1:ℝ) < 1 + save_exp x)
  linarith

theorem softplus_mono (lower : ℝ) {x y : ℝ} (hxy : x ≤ y) : spF lower x ≤ spF lower y := by
  rw [spF_eq, spF_eq]
  have hx := save_exp_pos x
  have := Real.log_le_log (by linarith) (by have := save_exp_mono hxy; linarith : 1 + save_exp x ≤ 1 + save_exp y)
  linarith

theorem softplus_strict_mono (lower : ℝ) {x y : ℝ} (hxy : x < y) (hy : y ≤ 20) : spF lower x < spF lower y := by
  rw [spF_eq, spF_eq]
  have hx := save_exp_pos x
  have := Real.log_lt_log (by linarith) (by have := save_exp_strictMono hxy hy; linarith : 1 + save_exp x < 1 + save_exp y)
  linarith

/-- `inverse (forward x) = x` when neither exponential clips -/
theorem softplus_roundtrip_partial (lower : ℝ) {x : ℝ} (hx : Real.log (1 + Real.exp x) ≤ 20) :
    spI lower (spF lower x) = x := by
  have hE := Real.exp_pos x
  have hx20 : x ≤ 20 := by
    have : x ≤ Real.log (1 + Real.exp x) := by
      rw [Real.le_log_iff_exp_le (by linarith)]; linarith
    linarith
  rw [spF_eq, spI_eq, save_exp_eq hx20]
  have : Real.log (1 + Real.exp x) + lower - lower = Real.log (1 + Real.exp x) := by ring
  rw [this, save_exp_eq hx, Real.exp_log (by linarith)]
  have : 1 + Real.exp x - 1 = Real.exp x := by ring
  rw [this, Real.log_exp]

/-- `forward (inverse y) = y` for `lower < y ≤ lower + 20` -/
theorem softplus_roundtrip_inv_partial {lower y : ℝ} (h1 : lower < y) (h2 : y - lower ≤ 20) :
    spF lower (spI lower y) = y := by
  rw [spI_eq, save_exp_eq h2, spF_eq]
  have hpos : 0 < Real.exp (y - lower) - 1 := by
    have := Real.one_lt_exp_iff.mpr (by linarith : 0 < y - lower); linarith
  have hle : Real.log (Real.exp (y - lower) - 1) ≤ 20 := by
    rw [← Real.log_exp 20]
    apply Real.log_le_log hpos
    have := Real.exp_le_exp.mpr h2; linarith
  rw [save_exp_eq hle, Real.exp_log hpos]
  have : 1 + (Real.exp (y - lower) - 1) = Real.exp (y - lower) := by ring
  rw [this, Real.log_exp]; ring

/-- beyond the clip: `forward (inverse 50) = 20 ≠ 50` for `SoftplusTransform(0)` (known finding F11) -/
theorem softplus_roundtrip_counterexample : spF 0 (spI 0 50) = 20 := by
  have hE20 : (1:ℝ) < Real.exp 20 := Real.one_lt_exp_iff.mpr (by norm_num)
  rw [spI_eq, save_exp_clipped (by norm_num), spF_eq]
  have hle : Real.log (Real.exp 20 - 1) ≤ 20 := by
    have := Real.log_le_log (by linarith : (0:ℝ) < Real.exp 20 - 1) (by linarith : Real.exp 20 - 1 ≤ Real.exp 20)
    rwa [Real.log_exp] at this
  rw [save_exp_eq hle, Real.exp_log (by linarith)]
  have : 1 + (Real.exp 20 - 1) = Real.exp 20 := by ring
  rw [this, Real.log_exp]; ring

/-! ## Negative softplus (after the N5 fix: maps into `(−∞, upper)`) -/

noncomputable def nspF (upper x : ℝ) : ℝ := NegSoftplusTransform.forward (NegSoftplusTransform.init_lower upper) x
noncomputable def nspI (upper y : ℝ) : ℝ := NegSoftplusTransform.inverse (NegSoftplusTransform.init_lower upper) y

theorem nspF_eq (upper x : ℝ) : nspF upper x = -spF (-upper) (-x) := by
  unfold nspF spF NegSoftplusTransform.forward NegSoftplusTransform.init_lower; rfl

theorem nspI_eq (upper y : ℝ) : nspI upper y = -spI (-upper) (-y) := by
  unfold nspI spI NegSoftplusTransform.inverse NegSoftplusTransform.init_lower; rfl

theorem negsoftplus_bounds (upper x : ℝ) : nspF upper x < upper := by
  rw [nspF_eq]; have := softplus_bounds (-upper) (-x); linarith

theorem negsoftplus_mono (upper : ℝ) {x y : ℝ} (hxy : x ≤ y) : nspF upper x ≤ nspF upper y := by
  rw [nspF_eq, nspF_eq]; have := softplus_mono (-upper) (by linarith : -y ≤ -x); linarith

theorem negsoftplus_roundtrip_partial (upper : ℝ) {x : ℝ} (hx : Real.log (1 + Real.exp (-x)) ≤ 20) :
    nspI upper (nspF upper x) = x := by
  rw [nspF_eq, nspI_eq, neg_neg, softplus_roundtrip_partial _ hx, neg_neg]

theorem negsoftplus_roundtrip_inv_partial {upper y : ℝ} (h1 : y < upper) (h2 : upper - y ≤ 20) :
    nspF upper (nspI upper y) = y := by
  rw [nspI_eq, nspF_eq, neg_neg, softplus_roundtrip_inv_partial (by linarith) (by linarith), neg_neg]

/-! ## Affine -/

theorem affine_roundtrip {a b : ℝ} (ha : a ≠ 0) (x : ℝ) :
    AffineTransform.inverse (AffineTransform.init_a a b) (AffineTransform.init_b a b)
      (AffineTransform.forward (AffineTransform.init_a a b) (AffineTransform.init_b a b) x) = x := by
  unfold AffineTransform.inverse AffineTransform.forward AffineTransform.init_a AffineTransform.init_b
  field_simp; ring

theorem affine_roundtrip_inv {a b : ℝ} (ha : a ≠ 0) (y : ℝ) :
    AffineTransform.forward (AffineTransform.init_a a b) (AffineTransform.init_b a b)
      (AffineTransform.inverse (AffineTransform.init_a a b) (AffineTransform.init_b a b) y) = y := by
  unfold AffineTransform.inverse AffineTransform.forward AffineTransform.init_a AffineTransform.init_b
  field_simp; ring

theorem affine_mono {a b : ℝ} (ha : 0 < a) {x y : ℝ} (h : x ≤ y) :
    AffineTransform.forward a b x ≤ AffineTransform.forward a b y := by
  unfold AffineTransform.forward; nlinarith

/-! ## Combinators (hand model `Model.Transforms`) -/

/-- a chain of transforms whose members round-trip on a set each maps into the next one's set -/
theorem chain_roundtrip {α : Type} (ts : List (Tf α)) (P : Tf α → α → Prop)
    (h : ∀ t ∈ ts, ∀ x, P t x → t.inv (t.fwd x) = x) :
    ∀ x, (∀ (pre : List (Tf α)) (t : Tf α) (post : List (Tf α)), ts = pre ++ t :: post → P t (chainFwd pre x)) →
      chainInv ts (chainFwd ts x) = x := by
  induction ts using List.reverseRecOn with
  | nil => intro x _; rfl
  | append_singleton ts t ih =>
    intro x hP
    have hlast : P t (chainFwd ts x) := hP ts t [] (by simp)
    unfold chainInv chainFwd
    rw [List.reverse_append, List.foldl_append, List.foldl_append]
    simp only [List.reverse_cons, List.reverse_nil, List.nil_append, List.foldl_cons, List.foldl_nil]
    have := h t (by simp) _ hlast
    unfold chainFwd at this
    rw [this]
    have ih' := ih (fun t' ht' => h t' (by simp [ht'])) x
      (fun pre t' post e => hP pre t' (post ++ [t]) (by rw [e]; simp))
    unfold chainInv chainFwd at ih'
    exact ih'

theorem masked_roundtrip {α : Type} (mask : List Bool) (t : Tf α) (xs : List α)
    (hlen : mask.length = xs.length) (h : ∀ x ∈ xs, t.inv (t.fwd x) = x) :
    maskedInv mask t (maskedFwd mask t xs) = xs := by
  induction mask generalizing xs with
  | nil => cases xs <;> simp_all [maskedInv, maskedFwd]
  | cons m ms ih =>
    cases xs with
    | nil => simp at hlen
    | cons x xs =>
      simp only [maskedInv, maskedFwd, List.zipWith_cons_cons]
      have hx := h x (by simp)
      have := ih xs (by simpa using hlen) (fun y hy => h y (by simp [hy]))
      simp only [maskedInv, maskedFwd] at this
      rw [this]
      cases m <;> simp [hx]

/-- unmasked entries pass through unchanged -/
theorem masked_frame {α : Type} (mask : List Bool) (t : Tf α) (xs : List α) (i : Nat)
    (hi : i < (maskedFwd mask t xs).length) (hm : mask[i]'(by simp [maskedFwd] at hi; omega) = false) :
    (maskedFwd mask t xs)[i] = xs[i]'(by simp [maskedFwd] at hi; omega) := by
  simp [maskedFwd, hm]

/-- `ParamTransform` applies each transform to exactly its own entry -/
theorem paramtransform_pointwise {α : Type} (tfs : List (Tf α)) (ps : List α) (i : Nat)
    (hi : i < (paramFwd tfs ps).length) :
    (paramFwd tfs ps)[i] = (tfs[i]'(by simp [paramFwd] at hi; omega)).fwd (ps[i]'(by simp [paramFwd] at hi; omega)) := by
  simp [paramFwd]

theorem paramtransform_roundtrip {α : Type} (tfs : List (Tf α)) (ps : List α) (hlen : tfs.length = ps.length)
    (h : ∀ i (h1 : i < tfs.length) (h2 : i < ps.length), (tfs[i]).inv ((tfs[i]).fwd (ps[i])) = ps[i]) :
    paramInv tfs (paramFwd tfs ps) = ps := by
  apply List.ext_getElem
  · simp [paramInv, paramFwd, hlen]
  · intro i h1 h2
    simp only [paramInv, paramFwd, List.getElem_zipWith]
    exact h i (by simp [paramInv, paramFwd] at h1; omega) h2

/-! ## non-vacuity -/
example : (0:ℝ) < sigF 0 1 3 ∧ sigF 0 1 3 < 1 := sigmoid_bounds (by norm_num) 3
example : sigI (-2) 2 (sigF (-2) 2 0.5) = 0.5 := sigmoid_roundtrip_partial (by norm_num) (by norm_num)

end JaxleyVerif.Props.C17
