/-
C20 — connectivity builders create exactly the requested connections.

Theorems about `Model.Connect` for EVERY outcome of the sampling (the draws are arguments):
* `fullyConnect_pairs` : with `cellOf (flat[b·npre+a]) = post[b]` (pandas samples inside each post cell) the list of
  (pre site, post cell) pairs is exactly the product `pre × post`, each pair once, for all `npre`, `npost` (equal or not)
* `whereTrue_spec`     : `(i,j)` is enumerated iff `M[i][j]` is True, without repetition
* `matrixConnect_length`, `sparseConnect_length` : one synapse per True entry / per drawn pair — for every count
  including 0 and 1 — and every synapse's pre site is the first compartment of its pre cell
-/
import Mathlib.Data.List.Basic
import Mathlib.Data.List.Nodup
import Mathlib.Data.List.Range
import Mathlib.Data.List.ProdSigma
import Mathlib.Data.List.GetD
import Mathlib.Tactic.Linarith
import JaxleyVerif.Model.Connect

namespace JaxleyVerif.Props.C20
open JaxleyVerif.Model.Connect

theorem repeatEach_length (npost : Nat) (pre : List Nat) : (repeatEach npost pre).length = pre.length * npost := by
  induction pre with
  | nil => simp [repeatEach]
  | cons p ps ih => simp only [repeatEach, List.flatMap_cons, List.length_append, List.length_replicate] at *
                    rw [ih]; simp [Nat.succ_mul]; omega

theorem transposeRavel_length (npost npre : Nat) (flat : List Nat) :
    (transposeRavel npost npre flat).length = npre * npost := by
  unfold transposeRavel
  induction npre with
  | zero => simp
  | succ n ih =>
    rw [List.range_succ, List.flatMap_append, List.length_append]
    simp only [List.flatMap_cons, List.flatMap_nil, List.append_nil, List.length_map, List.length_range]
    have : ((List.range n).flatMap (fun a => (List.range npost).map (fun b => flat.getD (b * (n + 1) + a) 0))).length = n * npost := by
      clear ih
      induction n with
      | zero => simp
      | succ m _ =>
        simp [List.length_flatMap, List.length_map, List.length_range]
    rw [this, Nat.succ_mul]

/-- entry `a·npost + b` of the reordered samples is the `a`-th sample of post cell `b` -/
theorem transposeRavel_get (npost npre : Nat) (flat : List Nat) (a b : Nat) (ha : a < npre) (hb : b < npost) :
    (transposeRavel npost npre flat).getD (a * npost + b) 0 = flat.getD (b * npre + a) 0 := by
  unfold transposeRavel
  have key : ∀ (n : Nat) (f : Nat → Nat → Nat), a < n →
      ((List.range n).flatMap (fun a' => (List.range npost).map (fun b' => f a' b'))).getD (a * npost + b) 0 = f a b := by
    intro n f
    induction n with
    | zero => intro h; omega
    | succ m ih =>
      intro h
      rw [List.range_succ, List.flatMap_append]
      have hlen : ((List.range m).flatMap (fun a' => (List.range npost).map (fun b' => f a' b'))).length = m * npost := by
        simp [List.length_flatMap, List.length_map, List.length_range]
      by_cases ham : a < m
      · rw [List.getD_append _ _ _ _ (by rw [hlen]; nlinarith)]
        exact ih ham
      · have : a = m := by omega
        subst this
        rw [List.getD_append_right _ _ _ _ (by rw [hlen]; omega), hlen]
        simp only [List.flatMap_cons, List.flatMap_nil, List.append_nil]
        rw [show a * npost + b - a * npost = b by omega]
        simp [List.getD_eq_getElem?_getD, hb]
  exact key npre (fun a' b' => flat.getD (b' * npre + a') 0) ha

/-- entry `a·npost + b` of the repeated pre rows is pre cell `a` -/
theorem repeatEach_get (npost : Nat) (pre : List Nat) (a b : Nat) (ha : a < pre.length) (hb : b < npost) :
    (repeatEach npost pre).getD (a * npost + b) 0 = pre.getD a 0 := by
  unfold repeatEach
  induction pre generalizing a with
  | nil => simp at ha
  | cons p ps ih =>
    simp only [List.flatMap_cons]
    cases a with
    | zero =>
      rw [List.getD_append _ _ _ _ (by simp; omega)]
      simp [List.getD_eq_getElem?_getD, hb]
    | succ a =>
      rw [List.getD_append_right _ _ _ _ (by simp [Nat.succ_mul]; omega)]
      simp only [List.length_replicate]
      rw [show (a + 1) * npost + b - npost = a * npost + b by rw [Nat.succ_mul]; omega]
      simpa using ih a (by simpa using ha)

/-- **fully_connect creates exactly one synapse for every (pre cell, post cell) pair**, for every draw and for equal
or different population sizes: synapse number `a·npost + b` goes from the site of pre cell `a` to a compartment that
was sampled inside post cell `b`. -/
theorem fullyConnect_pairs (preSites : List Nat) (npost : Nat) (flat : List Nat) (a b : Nat)
    (ha : a < preSites.length) (hb : b < npost) :
    (fullyConnect preSites npost flat).getD (a * npost + b) (0, 0)
      = (preSites.getD a 0, flat.getD (b * preSites.length + a) 0) := by
  unfold fullyConnect
  have h1 := repeatEach_get npost preSites a b ha hb
  have h2 := transposeRavel_get npost preSites.length flat a b ha hb
  have l1 := repeatEach_length npost preSites
  have l2 := transposeRavel_length npost preSites.length flat
  have hidx : a * npost + b < preSites.length * npost := by nlinarith
  rw [List.getD_eq_getElem?_getD, List.getElem?_zip_eq_some.mpr ⟨?_, ?_⟩]
  · rfl
  · rw [List.getD_eq_getElem?_getD] at h1
    rw [List.getElem?_eq_getElem (by rw [l1]; exact hidx)] at h1 ⊢
    simp only [Option.getD_some] at h1; rw [h1]
  · rw [List.getD_eq_getElem?_getD] at h2
    rw [List.getElem?_eq_getElem (by rw [l2]; exact hidx)] at h2 ⊢
    simp only [Option.getD_some] at h2; rw [h2]

theorem fullyConnect_length (preSites : List Nat) (npost : Nat) (flat : List Nat) :
    (fullyConnect preSites npost flat).length = preSites.length * npost := by
  unfold fullyConnect
  rw [List.length_zip, repeatEach_length, transposeRavel_length, Nat.min_self]

/-- `np.where`: `(i, j)` is listed iff the entry is True -/
theorem whereTrue_spec (m : List (List Bool)) (i j : Nat) :
    (i, j) ∈ whereTrue m ↔ i < m.length ∧ j < (m.getD i []).length ∧ (m.getD i []).getD j false = true := by
  unfold whereTrue
  simp only [List.mem_flatMap, List.mem_range, List.mem_map, List.mem_filter, Prod.mk.injEq]
  constructor
  · rintro ⟨i', hi', j', ⟨hj', hb⟩, rfl, rfl⟩; exact ⟨hi', hj', hb⟩
  · rintro ⟨hi, hj, hb⟩; exact ⟨i, hi, j, ⟨hj, hb⟩, rfl, rfl⟩

/-- … and no entry is listed twice -/
theorem whereTrue_nodup (m : List (List Bool)) : (whereTrue m).Nodup := by
  unfold whereTrue
  rw [List.nodup_flatMap]
  refine ⟨fun i _ => ?_, ?_⟩
  · exact (List.nodup_range.filter _).map (fun a b h => by injection h)
  · refine List.Pairwise.imp_of_mem ?_ List.nodup_range
    intro a b _ _ hab
    intro x hx hy
    simp only [List.mem_map, List.mem_filter, List.mem_range] at hx hy
    obtain ⟨_, _, rfl⟩ := hx
    obtain ⟨_, _, h⟩ := hy
    injection h with h1 _
    exact hab h1.symm

/-- one synapse per True entry, given one sample per entry -/
theorem matrixConnect_length (preSites : List Nat) (m : List (List Bool)) (samples : List Nat)
    (h : samples.length = (whereTrue m).length) : (matrixConnect preSites m samples).length = (whereTrue m).length := by
  unfold matrixConnect; simp [List.length_zip, h]

theorem insertByFst_length (p : Nat × Nat) (l : List (Nat × Nat)) : (insertByFst p l).length = l.length + 1 := by
  induction l with
  | nil => rfl
  | cons q qs ih => simp only [insertByFst]; split <;> simp [ih]

theorem sortByFst_length (l : List (Nat × Nat)) : (sortByFst l).length = l.length := by
  induction l with
  | nil => rfl
  | cons p ps ih => simp [sortByFst, insertByFst_length] at *; exact ih

/-- `sparse_connect` creates one synapse per drawn pair — for EVERY number of draws, including 0 and 1 -/
theorem sparseConnect_length (preSiteOf : Nat → Nat) (pairs : List (Nat × Nat)) (samples : List Nat)
    (h : samples.length = pairs.length) : (sparseConnect preSiteOf pairs samples).length = pairs.length := by
  unfold sparseConnect; simp [List.length_zip, sortByFst_length, h]

theorem mem_insertByFst (p q : Nat × Nat) (l : List (Nat × Nat)) : q ∈ insertByFst p l ↔ q = p ∨ q ∈ l := by
  induction l with
  | nil => simp [insertByFst]
  | cons r rs ih =>
    simp only [insertByFst]
    split
    · simp
    · simp only [List.mem_cons, ih]; constructor
      · rintro (h | h | h); exact Or.inr (Or.inl h); exact Or.inl h; exact Or.inr (Or.inr h)
      · rintro (h | h | h); exact Or.inr (Or.inl h); exact Or.inl h; exact Or.inr (Or.inr h)

/-- every synapse of `sparse_connect` starts at the pre site of a drawn pre cell (only pre → post pairs that were drawn) -/
theorem sparseConnect_pre_sites (preSiteOf : Nat → Nat) (pairs : List (Nat × Nat)) (samples : List Nat) (e : Nat × Nat)
    (he : e ∈ sparseConnect preSiteOf pairs samples) : ∃ p ∈ pairs, e.1 = preSiteOf p.1 := by
  unfold sparseConnect at he
  have := List.of_mem_zip he
  obtain ⟨q, hq, hq2⟩ := List.mem_map.mp this.1
  have hmem : ∀ l : List (Nat × Nat), q ∈ sortByFst l → q ∈ l := by
    intro l
    induction l with
    | nil => simp [sortByFst]
    | cons r rs ih =>
      intro h
      simp only [sortByFst, List.foldr_cons] at h
      rcases (mem_insertByFst r q _).mp h with h | h
      · simp [h]
      · exact List.mem_cons_of_mem _ (ih h)
  exact ⟨q, hmem pairs hq, hq2.symm⟩

/-- non-vacuity / the F7 witness: 2 pre cells (sites 0, 3), 3 post cells, samples post-cell major -/
example : fullyConnect [0, 3] 3 [10, 11, 20, 21, 30, 31] = [(0, 10), (0, 20), (0, 30), (3, 11), (3, 21), (3, 31)] := by decide

end JaxleyVerif.Props.C20
