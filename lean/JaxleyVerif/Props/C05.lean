/-
C05 — forward-mode AD correctness of the dual-number arithmetic of `Prelude/Dual.lean`:
evaluating an expression over `Dual ℝ` computes value and derivative; tangent linearity;
the implicit-step (solve) derivative; gradients w.r.t. shared parameters are sums of per-row partials.
-/
import Mathlib.Analysis.SpecialFunctions.ExpDeriv
import Mathlib.Analysis.SpecialFunctions.Log.Deriv
import Mathlib.Analysis.SpecialFunctions.Trigonometric.DerivHyp
import Mathlib.Analysis.Calculus.Deriv.Mul
import Mathlib.Analysis.Calculus.Deriv.Inv
import Mathlib.Analysis.Calculus.Deriv.Add
import Mathlib.Analysis.Calculus.Deriv.Comp
import Mathlib.Analysis.Calculus.Deriv.Prod
import Mathlib.Analysis.Calculus.Deriv.Pi
import Mathlib.Analysis.Calculus.FDeriv.Prod
import JaxleyVerif.Prelude.Dual
import JaxleyVerif.Lemmas.RealInst

namespace JaxleyVerif.Props.C05
open JaxleyVerif

/-! ### Projections of the dual arithmetic at `ℝ` (all by `rfl`: these *are* the instances of `Prelude/Dual.lean`) -/

@[simp] theorem add_re (a b : Dual ℝ) : (a + b).re = a.re + b.re := rfl
@[simp] theorem add_eps (a b : Dual ℝ) : (a + b).eps = a.eps + b.eps := rfl
@[simp] theorem sub_re (a b : Dual ℝ) : (a - b).re = a.re - b.re := rfl
@[simp] theorem sub_eps (a b : Dual ℝ) : (a - b).eps = a.eps - b.eps := rfl
@[simp] theorem neg_re (a : Dual ℝ) : (-a).re = -a.re := rfl
@[simp] theorem neg_eps (a : Dual ℝ) : (-a).eps = -a.eps := rfl
@[simp] theorem mul_re (a b : Dual ℝ) : (a * b).re = a.re * b.re := rfl
@[simp] theorem mul_eps (a b : Dual ℝ) : (a * b).eps = a.re * b.eps + a.eps * b.re := rfl
@[simp] theorem div_re (a b : Dual ℝ) : (a / b).re = a.re / b.re := rfl
@[simp] theorem div_eps (a b : Dual ℝ) :
    (a / b).eps = (a.eps * b.re - a.re * b.eps) / (b.re * b.re) := rfl
@[simp] theorem exp_re (a : Dual ℝ) : (Transc.exp a).re = Real.exp a.re := rfl
@[simp] theorem exp_eps (a : Dual ℝ) : (Transc.exp a).eps = a.eps * Real.exp a.re := rfl
@[simp] theorem log_re (a : Dual ℝ) : (Transc.log a).re = Real.log a.re := rfl
@[simp] theorem log_eps (a : Dual ℝ) : (Transc.log a).eps = a.eps / a.re := rfl
@[simp] theorem tanh_re (a : Dual ℝ) : (Transc.tanh a).re = Real.tanh a.re := rfl
theorem tanh_eps' (a : Dual ℝ) :
    (Transc.tanh a).eps = a.eps * (1.0 - Real.tanh a.re * Real.tanh a.re) := rfl
@[simp] theorem tanh_eps (a : Dual ℝ) :
    (Transc.tanh a).eps = a.eps * (1 - Real.tanh a.re * Real.tanh a.re) := by
  rw [tanh_eps']; norm_num

/-! ### 1. The expression language -/

inductive Ex
  | var
  | const (c : ℝ)
  | add (a b : Ex)
  | sub (a b : Ex)
  | mul (a b : Ex)
  | div (a b : Ex)
  | neg (a : Ex)
  | exp (a : Ex)
  | log (a : Ex)
  | tanh (a : Ex)

noncomputable def eval : Ex → ℝ → ℝ
  | .var, x => x
  | .const c, _ => c
  | .add a b, x => eval a x + eval b x
  | .sub a b, x => eval a x - eval b x
  | .mul a b, x => eval a x * eval b x
  | .div a b, x => eval a x / eval b x
  | .neg a, x => -eval a x
  | .exp a, x => Real.exp (eval a x)
  | .log a, x => Real.log (eval a x)
  | .tanh a, x => Real.tanh (eval a x)

/-- evaluation over dual numbers, using only the instances of `Prelude/Dual.lean` at `α := ℝ` -/
noncomputable def evalDual : Ex → Dual ℝ → Dual ℝ
  | .var, d => d
  | .const c, _ => ⟨c, 0⟩
  | .add a b, d => evalDual a d + evalDual b d
  | .sub a b, d => evalDual a d - evalDual b d
  | .mul a b, d => evalDual a d * evalDual b d
  | .div a b, d => evalDual a d / evalDual b d
  | .neg a, d => -evalDual a d
  | .exp a, d => Transc.exp (evalDual a d)
  | .log a, d => Transc.log (evalDual a d)
  | .tanh a, d => Transc.tanh (evalDual a d)

/-- every denominator is non-zero and every `log` argument is positive at `x` -/
def Defined : Ex → ℝ → Prop
  | .var, _ => True
  | .const _, _ => True
  | .add a b, x => Defined a x ∧ Defined b x
  | .sub a b, x => Defined a x ∧ Defined b x
  | .mul a b, x => Defined a x ∧ Defined b x
  | .div a b, x => Defined a x ∧ Defined b x ∧ eval b x ≠ 0
  | .neg a, x => Defined a x
  | .exp a, x => Defined a x
  | .log a, x => Defined a x ∧ 0 < eval a x
  | .tanh a, x => Defined a x

/-! ### 2. The real part is the value -/

theorem evalDual_re (e : Ex) (x dx : ℝ) : (evalDual e ⟨x, dx⟩).re = eval e x := by
  induction e with
  | var => rfl
  | const c => rfl
  | add a b iha ihb => simp [evalDual, eval, iha, ihb]
  | sub a b iha ihb => simp [evalDual, eval, iha, ihb]
  | mul a b iha ihb => simp [evalDual, eval, iha, ihb]
  | div a b iha ihb => simp [evalDual, eval, iha, ihb]
  | neg a iha => simp [evalDual, eval, iha]
  | exp a iha => simp [evalDual, eval, iha]
  | log a iha => simp [evalDual, eval, iha]
  | tanh a iha => simp [evalDual, eval, iha]

/-! ### 3. The dual part is the derivative -/

/-- derivative of `tanh` (not in Mathlib): `1 - tanh²` -/
theorem hasDerivAt_tanh (x : ℝ) : HasDerivAt Real.tanh (1 - Real.tanh x * Real.tanh x) x := by
  have hc : Real.cosh x ≠ 0 := (Real.cosh_pos x).ne'
  have h := (Real.hasDerivAt_sinh x).div (Real.hasDerivAt_cosh x) hc
  have hfun : Real.tanh = Real.sinh / Real.cosh := by
    funext y; exact Real.tanh_eq_sinh_div_cosh y
  have h2 : HasDerivAt Real.tanh
      ((Real.cosh x * Real.cosh x - Real.sinh x * Real.sinh x) / Real.cosh x ^ 2) x := by
    rw [hfun]; exact h
  refine h2.congr_deriv ?_
  rw [Real.tanh_eq_sinh_div_cosh]
  have := Real.cosh_sq x
  field_simp

theorem dual_eval_is_derivative (e : Ex) (x : ℝ) (h : Defined e x) :
    HasDerivAt (eval e) (evalDual e ⟨x, 1⟩).eps x := by
  induction e with
  | var => exact hasDerivAt_id x
  | const c => exact hasDerivAt_const x c
  | add a b iha ihb => exact (iha h.1).add (ihb h.2)
  | sub a b iha ihb => exact (iha h.1).sub (ihb h.2)
  | mul a b iha ihb =>
    refine HasDerivAt.congr_deriv (f := eval (.mul a b)) ((iha h.1).mul (ihb h.2)) ?_
    simp only [evalDual, mul_eps, evalDual_re]; ring
  | div a b iha ihb =>
    refine HasDerivAt.congr_deriv (f := eval (.div a b)) ((iha h.1).div (ihb h.2.1) h.2.2) ?_
    simp only [evalDual, div_eps, evalDual_re]; ring
  | neg a iha => exact (iha h).neg
  | exp a iha =>
    refine HasDerivAt.congr_deriv (f := eval (.exp a)) (iha h).exp ?_
    simp only [evalDual, exp_eps, evalDual_re]; ring
  | log a iha =>
    refine HasDerivAt.congr_deriv (f := eval (.log a)) ((iha h.1).log h.2.ne') ?_
    simp only [evalDual, log_eps, evalDual_re]
  | tanh a iha =>
    refine HasDerivAt.congr_deriv (f := eval (.tanh a))
      ((hasDerivAt_tanh (eval a x)).comp x (iha h)) ?_
    simp only [evalDual, tanh_eps, evalDual_re]; ring

/-! ### 4. Linearity in the tangent (unconditional: an algebraic identity of the dual arithmetic) -/

theorem evalDual_eps_linear (e : Ex) (x dx : ℝ) :
    (evalDual e ⟨x, dx⟩).eps = dx * (evalDual e ⟨x, 1⟩).eps := by
  induction e with
  | var => simp [evalDual]
  | const c => simp [evalDual]
  | add a b iha ihb => simp only [evalDual, add_eps]; rw [iha, ihb]; ring
  | sub a b iha ihb => simp only [evalDual, sub_eps]; rw [iha, ihb]; ring
  | mul a b iha ihb => simp only [evalDual, mul_eps, evalDual_re]; rw [iha, ihb]; ring
  | div a b iha ihb => simp only [evalDual, div_eps, evalDual_re]; rw [iha, ihb]; ring
  | neg a iha => simp only [evalDual, neg_eps]; rw [iha]; ring
  | exp a iha => simp only [evalDual, exp_eps, evalDual_re]; rw [iha]; ring
  | log a iha => simp only [evalDual, log_eps, evalDual_re]; rw [iha]; ring
  | tanh a iha => simp only [evalDual, tanh_eps, evalDual_re]; rw [iha]; ring

/-- directional derivative: the tangent `dx` is pushed forward to `dx · f'(x)` -/
theorem evalDual_eps_eq_deriv (e : Ex) (x dx : ℝ) (h : Defined e x) :
    (evalDual e ⟨x, dx⟩).eps = dx * deriv (eval e) x := by
  rw [evalDual_eps_linear, (dual_eval_is_derivative e x h).deriv]

/-! ### 5. The implicit-step derivative: `A·x = b ⟹ A·x' = b' − A'·x` -/

theorem solve_derivative (A b : ℝ → ℝ) (A' b' : ℝ) (t : ℝ) (hA : HasDerivAt A A' t)
    (hb : HasDerivAt b b' t) (h0 : A t ≠ 0) :
    HasDerivAt (fun s => b s / A s) ((b' - A' * (b t / A t)) / A t) t := by
  refine HasDerivAt.congr_deriv (f := fun s => b s / A s) (hb.div hA h0) ?_
  field_simp

theorem dual_div_is_solve (a b : Dual ℝ) (h : a.re ≠ 0) :
    (b / a).eps = (b.eps - a.eps * (b.re / a.re)) / a.re := by
  rw [div_eps]
  field_simp

/-- the tangent returned by dual division solves the differentiated equation `A·x' = b' − A'·x` -/
theorem dual_div_solves_tangent_eq (a b : Dual ℝ) (h : a.re ≠ 0) :
    a.re * (b / a).eps = b.eps - a.eps * (b / a).re := by
  rw [dual_div_is_solve a b h, div_re]
  field_simp

/-! ### 6. Shared parameters: the gradient is the sum of the per-row partial derivatives -/

theorem grad_shared_eq_sum (F : ℝ × ℝ → ℝ) (F' : ℝ × ℝ →L[ℝ] ℝ) (θ : ℝ)
    (hF : HasFDerivAt F F' (θ, θ)) :
    HasDerivAt (fun t => F (t, t)) (F' (1, 0) + F' (0, 1)) θ := by
  have hc : HasDerivAt (fun t : ℝ => (t, t)) ((1 : ℝ), (1 : ℝ)) θ :=
    (hasDerivAt_id θ).prodMk (hasDerivAt_id θ)
  have := HasFDerivAt.comp_hasDerivAt (f := fun t : ℝ => (t, t)) θ hF hc
  have hlin : F' (1, 1) = F' (1, 0) + F' (0, 1) := by
    rw [← map_add]; simp
  rw [← hlin]
  exact this

/-- `n` rows with parameters `p i`; the rows in the group `S` all receive the shared parameter `t`. -/
def shareParam {n : ℕ} (S : Finset (Fin n)) (p : Fin n → ℝ) (t : ℝ) : Fin n → ℝ :=
  fun i => if i ∈ S then t else p i

theorem grad_shared_eq_sum_fin {n : ℕ} (S : Finset (Fin n)) (p : Fin n → ℝ)
    (F : (Fin n → ℝ) → ℝ) (F' : (Fin n → ℝ) →L[ℝ] ℝ) (θ : ℝ)
    (hF : HasFDerivAt F F' (shareParam S p θ)) :
    HasDerivAt (fun t => F (shareParam S p t)) (∑ i ∈ S, F' (Pi.single i 1)) θ := by
  have hc : HasDerivAt (fun t : ℝ => shareParam S p t)
      (fun i => if i ∈ S then (1 : ℝ) else 0) θ := by
    rw [hasDerivAt_pi]
    intro i
    unfold shareParam
    by_cases hi : i ∈ S
    · simp only [hi, if_true]; exact hasDerivAt_id θ
    · simp only [hi, if_false]; exact hasDerivAt_const θ (p i)
  have := hF.comp_hasDerivAt θ hc
  have hlin : F' (fun i => if i ∈ S then (1 : ℝ) else 0) = ∑ i ∈ S, F' (Pi.single i 1) := by
    rw [← map_sum]
    congr 1
    funext j
    simp [Finset.sum_apply, Pi.single_apply]
  rw [← hlin]
  exact this

/-! ### 7. Non-vacuity: `x / (eˣ − 1)` of the rate functions -/

def rateEx : Ex := .div .var (.sub (.exp .var) (.const 1))

theorem eval_rateEx (x : ℝ) : eval rateEx x = x / (Real.exp x - 1) := rfl

theorem defined_rateEx_iff (x : ℝ) : Defined rateEx x ↔ x ≠ 0 := by
  simp only [rateEx, Defined, eval, true_and, ne_eq]
  rw [sub_eq_zero, Real.exp_eq_one_iff]

theorem rateEx_dual_eps (x : ℝ) :
    (evalDual rateEx ⟨x, 1⟩).eps
      = ((Real.exp x - 1) - x * Real.exp x) / ((Real.exp x - 1) * (Real.exp x - 1)) := by
  simp [rateEx, evalDual]

theorem rateEx_hasDerivAt (x : ℝ) (hx : x ≠ 0) :
    HasDerivAt (fun y => y / (Real.exp y - 1))
      (((Real.exp x - 1) - x * Real.exp x) / ((Real.exp x - 1) * (Real.exp x - 1))) x := by
  have := dual_eval_is_derivative rateEx x ((defined_rateEx_iff x).2 hx)
  rw [rateEx_dual_eps] at this
  exact this

end JaxleyVerif.Props.C05
