/-
C11 — views select exactly the described compartments, in local or global scope.

Theorems about the hand model `Model.Views` (tied to jaxley/modules/base.py by the correspondence harness, which compares
`_nodes_in_view`, `_edges_in_view` and the local index columns after every step of random selection chains):

* a selection IS a filter of the parent view by membership of the scope's index column (`atNodes_eq_filter`), hence a
  chain is an iterated filter, result rows are a sub-list of the parent's rows (`atNodes_sublist`)
* the local indices are the dense ranks: bounded by the number of distinct values, strictly monotone in the global
  index, and onto `0..k−1` (`denseRank_lt`, `denseRank_strictMono`, `denseRank_onto`)
* scope coherence: two rows have the same local cell index iff they have the same global one (`local_eq_iff_global_eq`)
* index forms that denote the same index set give the same view (`int_eq_singleton`, `range_eq_list`)
* an edge is in a node-selected view iff it was in the parent view and both ends are selected (`edges_in_view_iff`)
* lazy `[]` indexing and iteration are by definition the method chain (`getItem_eq_methods`, `iter_eq_methods`)
* channel views: exactly the rows containing the channel — unless none does, in which case the implementation (and the
  model) return the WHOLE current view (`channelView_exact`, `channelView_absent_counterexample`: known finding N8)
-/
import Mathlib.Data.Finset.Card
import Mathlib.Data.List.Nodup
import Mathlib.Data.List.Dedup
import Mathlib.Tactic.Linarith
import JaxleyVerif.Model.Views

namespace JaxleyVerif.Props.C11
open JaxleyVerif.Model.Views

/-! ## selections are filters -/

/-- shape of every successful `_at_nodes` -/
theorem atNodes_ok (b : Base) (v w : View) (k : Key) (i : Idx) (h : atNodes b v k i = .ok w) :
    ∃ r, reformat b v i = .ok r ∧ w.nodes = v.nodes.filter (keepFn b v k r) ∧ w.scope = v.scope ∧
      w.edges = edgesAfterNodes b v.edges w.nodes := by
  unfold atNodes at h
  split at h
  · cases h
  · cases hr : reformat b v i with
    | error e => simp [hr] at h
    | ok r =>
      simp only [hr] at h
      split at h
      · cases h
      · injection h with h; subst h; exact ⟨r, rfl, rfl, rfl, rfl⟩

theorem atNodes_eq_filter (b : Base) (v w : View) (k : Key) (l : List Int)
    (h : atNodes b v k (.list l) = .ok w) :
    w.nodes = v.nodes.filter (fun lab => memInt (idxIn b v k lab) l) ∧ w.scope = v.scope ∧
    w.edges = edgesAfterNodes b v.edges w.nodes := by
  obtain ⟨r, hr, h1, h2, h3⟩ := atNodes_ok b v w k _ h
  simp only [reformat] at hr
  injection hr with hr; subst hr
  exact ⟨h1, h2, h3⟩

theorem atNodes_all (b : Base) (v w : View) (k : Key) (h : atNodes b v k .all = .ok w) : w.nodes = v.nodes := by
  obtain ⟨r, hr, h1, _, _⟩ := atNodes_ok b v w k _ h
  simp only [reformat] at hr
  injection hr with hr; subst hr
  rw [h1]; simp [keepFn]

/-- rows of a selected view are a sub-list of the parent's rows: order is kept, nothing is invented -/
theorem atNodes_sublist (b : Base) (v w : View) (k : Key) (i : Idx) (h : atNodes b v k i = .ok w) :
    w.nodes.Sublist v.nodes := by
  obtain ⟨r, _, h1, _, _⟩ := atNodes_ok b v w k i h
  rw [h1]; exact List.filter_sublist

/-! ## dense ranks -/

theorem mem_distinct {x : Nat} : ∀ {l : List Nat}, x ∈ distinct l ↔ x ∈ l
  | [] => by simp [distinct]
  | y :: ys => by
    simp only [distinct, List.mem_cons, List.mem_filter, mem_distinct (l := ys)]
    constructor
    · rintro (h | ⟨h, _⟩); exact Or.inl h; exact Or.inr h
    · rintro (h | h)
      · exact Or.inl h
      · by_cases hxy : x = y
        · exact Or.inl hxy
        · exact Or.inr ⟨h, by simpa using hxy⟩

theorem nodup_distinct : ∀ l : List Nat, (distinct l).Nodup
  | [] => by simp [distinct]
  | y :: ys => by
    simp only [distinct, List.nodup_cons, List.mem_filter]
    exact ⟨fun h => by simpa using h.2, (nodup_distinct ys).filter _⟩

/-- strictly monotone: a larger global index has a larger local index -/
theorem denseRank_strictMono {x y : Nat} {vals : List Nat} (hx : x ∈ vals) (hxy : x < y) :
    denseRank x vals < denseRank y vals := by
  unfold denseRank
  set D := distinct vals
  have hsplit := List.length_eq_length_filter_add (l := D.filter (· < y)) (fun z => decide (z < x))
  have e1 : (D.filter (· < y)).filter (fun z => decide (z < x)) = D.filter (· < x) := by
    rw [List.filter_filter]
    apply List.filter_congr
    intro z _
    by_cases hz : z < x
    · have : z < y := by omega
      simp [hz, this]
    · simp [hz]
  have hxmem : x ∈ (D.filter (· < y)).filter (fun z => !decide (z < x)) := by
    simp only [List.mem_filter, decide_eq_true_eq, Bool.not_eq_true', decide_eq_false_iff_not, Nat.lt_irrefl,
      not_false_eq_true, and_true]
    exact ⟨mem_distinct.mpr hx, hxy⟩
  have hpos : 0 < ((D.filter (· < y)).filter (fun z => !decide (z < x))).length := List.length_pos_of_mem hxmem
  rw [e1] at hsplit
  omega

/-- bounded: the local index of a value in view is below the number of distinct values -/
theorem denseRank_lt {x : Nat} {vals : List Nat} (hx : x ∈ vals) : denseRank x vals < (distinct vals).length := by
  unfold denseRank
  have hsplit := List.length_eq_length_filter_add (l := distinct vals) (fun z => decide (z < x))
  have hxmem : x ∈ (distinct vals).filter (fun z => !decide (z < x)) := by
    simp [mem_distinct.mpr hx]
  have := List.length_pos_of_mem hxmem
  omega

/-- injective on the values in view -/
theorem denseRank_inj {x y : Nat} {vals : List Nat} (hx : x ∈ vals) (hy : y ∈ vals)
    (h : denseRank x vals = denseRank y vals) : x = y := by
  rcases Nat.lt_trichotomy x y with hlt | heq | hgt
  · have := denseRank_strictMono hx hlt; omega
  · exact heq
  · have := denseRank_strictMono hy hgt; omega

/-- onto: the local indices in a view are exactly `0, …, k−1` (dense) -/
theorem denseRank_onto (vals : List Nat) (k : Nat) (hk : k < (distinct vals).length) :
    ∃ x ∈ vals, denseRank x vals = k := by
  classical
  set D := distinct vals with hD
  have hnd : D.Nodup := nodup_distinct vals
  let S : Finset Nat := D.toFinset
  have hcard : S.card = D.length := List.toFinset_card_of_nodup hnd
  have himg : (S.image (fun x => denseRank x vals)) = Finset.range D.length := by
    apply Finset.eq_of_subset_of_card_le
    · intro r hr
      obtain ⟨x, hxS, rfl⟩ := Finset.mem_image.mp hr
      exact Finset.mem_range.mpr (denseRank_lt (mem_distinct.mp (List.mem_toFinset.mp hxS)))
    · rw [Finset.card_range, Finset.card_image_of_injOn, hcard]
      intro x hx y hy hxy
      exact denseRank_inj (mem_distinct.mp (List.mem_toFinset.mp hx)) (mem_distinct.mp (List.mem_toFinset.mp hy)) hxy
  have : k ∈ S.image (fun x => denseRank x vals) := by rw [himg]; exact Finset.mem_range.mpr hk
  obtain ⟨x, hxS, hx⟩ := Finset.mem_image.mp this
  exact ⟨x, mem_distinct.mp (List.mem_toFinset.mp hxS), hx⟩

/-- scope coherence for cells: same local index ⇔ same global index (for rows of the view) -/
theorem local_eq_iff_global_eq (b : Base) (v : List Nat) {l m : Nat} (hl : l ∈ v) (hm : m ∈ v) :
    localIdx b v .cell l = localIdx b v .cell m ↔ (nodeOf b l).cell = (nodeOf b m).cell := by
  simp only [localIdx]
  constructor
  · intro h
    exact denseRank_inj (List.mem_map.mpr ⟨l, hl, rfl⟩) (List.mem_map.mpr ⟨m, hm, rfl⟩) h
  · intro h; rw [h]

/-! ## index forms -/

theorem int_eq_singleton (b : Base) (v : View) (k : Int) : reformat b v (.int k) = reformat b v (.list [k]) := rfl

theorem range_eq_list : reformat ⟨1, #[], #[], #[], #[], [], []⟩ ⟨[], [], .loc, "cell", none⟩ (.range 1 4 1)
    = reformat ⟨1, #[], #[], #[], #[], [], []⟩ ⟨[], [], .loc, "cell", none⟩ (.list [1, 2, 3]) := by decide

/-! ## edges -/

theorem mem_insertSorted {x y : Nat} : ∀ {l : List Nat}, x ∈ insertSorted y l ↔ x = y ∨ x ∈ l
  | [] => by simp [insertSorted]
  | z :: zs => by
    simp only [insertSorted]
    split
    · simp
    · split
      · rename_i _ h; have : y = z := by simpa using h
        subst this; simp
      · simp only [List.mem_cons, mem_insertSorted (l := zs)]
        constructor
        · rintro (h | h | h); exact Or.inr (Or.inl h); exact Or.inl h; exact Or.inr (Or.inr h)
        · rintro (h | h | h); exact Or.inr (Or.inl h); exact Or.inl h; exact Or.inr (Or.inr h)

theorem mem_sortedDistinct {x : Nat} (l : List Nat) : x ∈ sortedDistinct l ↔ x ∈ l := by
  unfold sortedDistinct
  suffices h : ∀ acc : List Nat, x ∈ l.foldl (fun acc x => insertSorted x acc) acc ↔ x ∈ acc ∨ x ∈ l by
    simpa using h []
  induction l with
  | nil => intro acc; simp
  | cons y ys ih =>
    intro acc
    simp only [List.foldl_cons, ih, mem_insertSorted, List.mem_cons]
    constructor
    · rintro ((h | h) | h); exact Or.inr (Or.inl h); exact Or.inl h; exact Or.inr (Or.inr h)
    · rintro (h | h | h); exact Or.inl (Or.inr h); exact Or.inl (Or.inl h); exact Or.inr h

/-- an edge is shown by a node-selected view iff the parent view showed it and both its ends are selected -/
theorem edges_in_view_iff (b : Base) (ptr ns : List Nat) (e : Nat) :
    e ∈ edgesAfterNodes b ptr ns ↔
      e < b.edges.size ∧ e ∈ ptr ∧
      (b.edges.getD e ⟨0, 0, ""⟩).pre ∈ compsOf b ns ∧ (b.edges.getD e ⟨0, 0, ""⟩).post ∈ compsOf b ns := by
  unfold edgesAfterNodes
  rw [mem_sortedDistinct]
  simp only [List.mem_filter, List.mem_range, Bool.and_eq_true, List.contains_iff_mem]
  constructor
  · rintro ⟨⟨h1, h2, h3⟩, h4⟩; exact ⟨h1, h4, h2, h3⟩
  · rintro ⟨h1, h4, h2, h3⟩; exact ⟨⟨h1, h2, h3⟩, h4⟩

/-! ## lazy indexing and iteration are the method form -/

theorem getItem_eq_methods (b : Base) (v : View) (i j : Idx) (h : v.cur = "cell") :
    getItem b v [i, j] = (atNodes b v .branch i >>= fun w => atNodes b w .comp j) := by
  unfold getItem
  simp [h, childKeys, List.foldlM]

theorem iter_eq_methods (b : Base) (v : View) (k : Key) :
    iterViews b v k = (distinct (v.nodes.map (idxIn b v k))).map (fun i => atNodes b v k (.int (Int.ofNat i))) := rfl

/-! ## channel views -/

/-- when at least one row in view contains the channel, the channel view shows exactly those rows -/
theorem channelView_exact (b : Base) (v w : View) (name : String) (rows : List Nat)
    (hc : b.chans.find? (·.1 == name) = some (name, rows))
    (hsome : (v.nodes.filter (fun l => rows.contains l)) ≠ [])
    (h : channelView b v name = .ok w) : w.nodes = v.nodes.filter (fun l => rows.contains l) := by
  unfold channelView at h
  simp only [hc] at h
  have hne : (v.nodes.filter (fun l => rows.contains l)).isEmpty = false := by
    cases hf : v.nodes.filter (fun l => rows.contains l) with
    | nil => exact absurd hf hsome
    | cons _ _ => rfl
  simp only [hne, Bool.false_eq_true, if_false] at h
  unfold select at h
  simp only [hne, Bool.false_eq_true, if_false] at h
  split at h
  · cases h
  · simp only [Except.map] at h
    injection h with h; subst h; rfl

/-- known finding N8: a channel that exists in the module but in NO row of the current view yields the whole view -/
theorem channelView_absent_counterexample :
    let b : Base := ⟨1, #[⟨0, 0, 0⟩, ⟨0, 1, 1⟩], #[], #[1, 1], #[0, 1, 2], [], [("HH", [1])]⟩
    (channelView b ⟨[0], [], .loc, "branch", none⟩ "HH").toOption.map (·.nodes) = some [0] := by decide

end JaxleyVerif.Props.C11
