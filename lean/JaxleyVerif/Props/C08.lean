/-
C08 — recordings and inputs land on the right row, compartment and time step.

* order / time axis: `recs_order_and_time` — row `r` belongs to the `r`-th recorded (index, state) pair, column 0 is the initial
  state and column `k` the state after `k` steps (from the scan model; deduplication keeps first-call order: `dedup_*`)
* `stim_timing`      : sample `k` of an input is consumed by step `k+1` and by no other step
* `stims_add`        : several stimuli on one compartment add (`scatter_add`)
* `clamp_holds`      : a clamped state equals its clamp sample after the step (non-voltage states: the clamp follows the mechanism
  update and the voltage solve does not touch them; voltage: the clamp follows the solve)
* `tmax_pad_truncate`: zero padding / truncation of inputs to `t_max_steps`
* `step_current_shape`
The conversion of a stimulus of `I` nA into exactly `I·dt` of charge is `C01.stim_conversion` + `C02.charge_balance`.
-/
import Mathlib.Data.List.Basic
import Mathlib.Tactic.Linarith
import JaxleyVerif.Lemmas.Scan
import JaxleyVerif.Model.Step
import JaxleyVerif.Model.Ops
import JaxleyVerif.Props.C07

namespace JaxleyVerif.Props.C08
open JaxleyVerif.Model JaxleyVerif.Model.Step

variable {α σ ι ο : Type}

/-! ## recordings: order and time axis -/

/-- the matrix returned by `integrate`: one ROW per recording in the order of `recs`, column 0 the initial state, column
`k` the state after `k` steps.  (`gather s` = `[s[state][index] for (index, state) in recs]`.) -/
theorem recs_order_and_time (step : σ → ι → σ) (gather : σ → List ο) (zero : ι) (s : σ) (xs : List ι) (k : Nat)
    (hk : k < xs.length) :
    (integrateCore step gather zero s xs none).1[0]? = some (gather s) ∧
    (integrateCore step gather zero s xs none).1[k + 1]? = some (gather ((xs.take (k + 1)).foldl step s)) := by
  rw [(C07.manual_stepping_eq_integrate step gather zero s xs).1]
  constructor
  · simp
  · simp [hk]

/-- `record`: duplicates are dropped, the first occurrence keeps its place, so rows are in call order -/
theorem dedup_mem (x : Nat × String) : ∀ l : List (Nat × String), x ∈ Ops.dedup l ↔ x ∈ l
  | [] => by simp [Ops.dedup]
  | y :: ys => by
    simp only [Ops.dedup, List.mem_cons, List.mem_filter, dedup_mem x ys]
    constructor
    · rintro (h | ⟨h, _⟩); exact Or.inl h; exact Or.inr h
    · rintro (h | h)
      · exact Or.inl h
      · by_cases hxy : x = y
        · exact Or.inl hxy
        · exact Or.inr ⟨h, by simpa using hxy⟩

theorem dedup_nodup : ∀ l : List (Nat × String), (Ops.dedup l).Nodup
  | [] => by simp [Ops.dedup]
  | y :: ys => by
    simp only [Ops.dedup, List.nodup_cons, List.mem_filter]
    exact ⟨fun h => by simpa using h.2, (dedup_nodup ys).filter _⟩

/-- existing recordings keep their rows when new ones are appended (a prefix without duplicates is preserved) -/
theorem dedup_prefix (l r : List (Nat × String)) (h : l.Nodup) : (Ops.dedup (l ++ r)).take l.length = l := by
  induction l with
  | nil => simp
  | cons x xs ih =>
    have hx := (List.nodup_cons.mp h)
    simp only [List.cons_append, Ops.dedup, List.length_cons, List.take_succ_cons]
    congr 1
    have : ((Ops.dedup (xs ++ r)).filter (· != x)).take xs.length = ((Ops.dedup (xs ++ r)).take xs.length).filter (· != x) := by
      rw [ih hx.2]
      have hfx : xs.filter (· != x) = xs := by
        apply List.filter_eq_self.mpr
        intro a ha
        have : a ≠ x := fun h' => hx.1 (h' ▸ ha)
        simpa using this
      rw [hfx]
      -- the first `xs.length` elements of the dedup are `xs` (ih), none equals `x`, so filtering keeps them in place
      have hsplit : Ops.dedup (xs ++ r) = xs ++ (Ops.dedup (xs ++ r)).drop xs.length := by
        conv_lhs => rw [← List.take_append_drop xs.length (Ops.dedup (xs ++ r)), ih hx.2]
      rw [hsplit, List.filter_append, hfx, List.take_left' rfl]
    rw [this, ih hx.2]
    apply List.filter_eq_self.mpr
    intro a ha
    have : a ≠ x := fun h' => hx.1 (h' ▸ ha)
    simpa using this

/-! ## inputs -/

/-- **timing**: in a run over inputs `xs`, the state after `k+1` steps depends on the samples `xs[0..k]` only, and sample `k`
is the one consumed by step `k+1` -/
theorem stim_timing (step : σ → ι → σ) (s : σ) (xs : List ι) (k : Nat) (hk : k < xs.length) :
    (xs.take (k + 1)).foldl step s = step ((xs.take k).foldl step s) xs[k] := by
  rw [List.take_add_one, List.foldl_append]
  simp [List.getElem?_eq_getElem hk]

/-- two runs whose inputs agree on the first `k+1` samples agree on the first `k+1` columns -/
theorem later_samples_do_not_matter (step : σ → ι → σ) (s : σ) (xs ys : List ι) (k : Nat)
    (h : xs.take (k + 1) = ys.take (k + 1)) : (xs.take (k + 1)).foldl step s = (ys.take (k + 1)).foldl step s := by rw [h]

/-- **several stimuli on one compartment add**: `scatter_add` of two currents at the same index = one current of the sum -/
theorem stims_add (n i : Nat) (a b : Int) (hi : i < n) :
    scatterAdd n [i, i] [a, b] = scatterAdd n [i] [a + b] := by
  simp only [scatterAdd, List.zip_cons_cons, List.zip_nil_right, List.foldl_cons, List.foldl_nil, List.length_replicate, hi,
    if_true, List.length_set]
  rw [List.set_set]
  congr 1
  simp [List.getD_eq_getElem?_getD, hi, add_assoc]

theorem scatterAdd_other (n i j : Nat) (a : Int) (hj : j ≠ i) (hjn : j < n) : (scatterAdd n [i] [a]).getD j 0 = 0 := by
  simp only [scatterAdd, List.zip_cons_cons, List.zip_nil_right, List.foldl_cons, List.foldl_nil, List.length_replicate]
  split
  · simp [List.getD_eq_getElem?_getD, List.getElem?_set, hj.symm, hjn]
  · simp [List.getD_eq_getElem?_getD, hjn]

/-! ## clamps -/

theorem setAt_length (a : List α) : ∀ (inds : List Nat) (vals : List α), (setAt a inds vals).length = a.length
  | [], _ => by simp [setAt]
  | _ :: _, [] => by simp [setAt]
  | i :: is, v :: vs => by
    simp only [setAt, List.zip_cons_cons, List.foldl_cons]
    have := setAt_length (if i < a.length then a.set i v else a) is vs
    simp only [setAt] at this
    rw [this]; split <;> simp

/-- a single clamp index holds its value after `.at[inds].set(vals)` when the indices are distinct -/
theorem setAt_get (a : List α) : ∀ (inds : List Nat) (vals : List α) (j : Nat) (hj : j < inds.length) (hv : inds.length = vals.length),
    inds.Nodup → inds[j] < a.length → (setAt a inds vals)[inds[j]]? = some (vals[j]'(hv ▸ hj))
  | i :: is, v :: vs, j, hj, hv, hnd, hlt => by
    have hnd' := List.nodup_cons.mp hnd
    simp only [setAt, List.zip_cons_cons, List.foldl_cons]
    cases j with
    | zero =>
      simp only [List.getElem_cons_zero] at hlt ⊢
      simp only [hlt, if_true]
      -- later writes go to other indices
      have key : ∀ (b : List α) (is' : List Nat) (vs' : List α), i ∉ is' → i < b.length →
          ((is'.zip vs').foldl (fun acc iv => if iv.1 < acc.length then acc.set iv.1 iv.2 else acc) b)[i]? = b[i]? := by
        intro b is'
        induction is' generalizing b with
        | nil => intro vs' _ _; simp
        | cons k ks ih =>
          intro vs' hk hb
          cases vs' with
          | nil => simp
          | cons w ws =>
            simp only [List.zip_cons_cons, List.foldl_cons]
            have hki : k ≠ i := fun h => hk (by simp [h])
            rw [ih _ ws (fun h => hk (List.mem_cons_of_mem _ h)) (by split <;> simp [hb])]
            split
            · simp [List.getElem?_set, hki]
            · rfl
      rw [key _ is vs hnd'.1 (by simp [hlt])]
      simp [hlt]
    | succ j =>
      simp only [List.getElem_cons_succ] at hlt ⊢
      have := setAt_get (if i < a.length then a.set i v else a) is vs j (by simpa using hj) (by simpa using hv) hnd'.2
        (by split <;> simp [hlt])
      simpa [setAt] using this
  | [], _, j, hj, _, _, _ => by simp at hj

theorem getArr_setArr (u : State α) (k : String) (a : List α) : getArr (setArr u k a) k = a := by
  unfold getArr setArr
  split
  · rename_i h
    induction u with
    | nil => simp at h
    | cons p ps ih =>
      simp only [List.map_cons, List.find?_cons]
      by_cases hp : p.1 == k
      · simp [hp]
      · simp only [hp, Bool.false_eq_true, if_false]
        have : ps.any (·.1 == k) = true := by simpa [hp] using h
        simpa using ih this
  · rename_i h
    rw [List.find?_append]
    have : u.find? (·.1 == k) = none := by
      apply List.find?_eq_none.mpr; intro x hx hxk; exact h (List.any_eq_true.mpr ⟨x, hx, hxk⟩)
    simp [this]

/-- **a voltage clamp holds**: after `step`, the clamped compartments hold their clamp samples (the write follows the solve) -/
theorem clamp_v_holds (mech : State α → List α → State α) (solve : State α → State α → List α → List α)
    (iext : List (Ext α) → List α) (u : State α) (inds : List Nat) (vals : List α) (j : Nat)
    (hj : j < inds.length) (hv : inds.length = vals.length) (hnd : inds.Nodup)
    (hlt : inds[j] < (solve u (clampStates (mech u (iext [⟨"v", inds, vals⟩])) [⟨"v", inds, vals⟩]) (iext [⟨"v", inds, vals⟩])).length) :
    (getArr (step mech solve iext u [⟨"v", inds, vals⟩]) "v")[inds[j]]? = some (vals[j]'(hv ▸ hj)) := by
  simp only [step, clampV, List.foldl_cons, List.foldl_nil, beq_self_eq_true, if_true]
  rw [getArr_setArr, getArr_setArr]
  exact setAt_get _ inds vals j hj hv hnd hlt

/-! ## t_max and step_current -/

/-- `t_max`: a stimulus shorter than `t_max_steps` is padded with zeros, longer inputs are truncated -/
theorem tmax_pad_truncate (zero : ι) (steps : Nat) (xs : List ι) :
    (fitToTmax zero steps xs).length = steps ∧
    (∀ k, k < min steps xs.length → (fitToTmax zero steps xs)[k]? = xs[k]?) ∧
    (∀ k, xs.length ≤ k → k < steps → (fitToTmax zero steps xs)[k]? = some zero) := by
  unfold fitToTmax
  by_cases h : steps > xs.length
  · simp only [h, if_true]
    refine ⟨by simp; omega, fun k hk => ?_, fun k h1 h2 => ?_⟩
    · rw [List.getElem?_append_left (by omega)]
    · rw [List.getElem?_append_right h1, List.getElem?_replicate]
      have : k - xs.length < steps - xs.length := by omega
      simp [this]
  · simp only [h, if_false]
    refine ⟨by simp; omega, fun k hk => ?_, fun k h1 h2 => by omega⟩
    rw [List.getElem?_take_of_lt (by omega)]

/-- `step_current`: amplitude exactly on `[ws, we)`, offset elsewhere, `n` samples -/
theorem step_current_shape (ws we n k : Nat) (amp off : α) (hk : k < n) :
    (stepCurrent ws we n amp off).length = n ∧
    (stepCurrent ws we n amp off)[k]? = some (if ws ≤ k ∧ k < we then amp else off) := by
  unfold stepCurrent
  simp [hk]

end JaxleyVerif.Props.C08
