/-
C02 — axial coupling conserves charge, is reciprocal and never overshoots.

All statements are about the cable system in its symmetric (absolute-current) form
   (σ i + Σ_j w i j)·x i − Σ_j w i j·x j = σ i·u i ,     w i j = w j i = 10³·G_ij  (µA/mV),
   σ i = C_i/dt + A_i·gm_i  and  σ i·u i = C_i·v_i/dt + A_i·gm_i·E_i + 10⁻³·I_i  for compartments, σ = 0 for branch points,
to which the implementation's rows are related by the positive row factors proved in C01
(`couplingCond_eq_spec`, `bpCond_eq_spec`, `impact_eq_spec`, `stim_conversion`, `couplingCond_symmetric`).
-/
import JaxleyVerif.Props.C01

namespace JaxleyVerif.Props.C02
open JaxleyVerif JaxleyVerif.Cable

variable {ι : Type} [Fintype ι] [DecidableEq ι]

/-- total charge: the capacitive charge change equals injected minus membrane charge (axial terms cancel) -/
theorem charge_balance {w : ι → ι → ℝ} {σ u x : ι → ℝ} (hsym : ∀ i j, w i j = w j i)
    (hrow : ∀ i, row w σ x i = σ i * u i) : ∑ i, σ i * (x i - u i) = 0 :=
  Cable.charge_balance hsym hrow

/-- backward Euler never overshoots: the new voltages lie between the extremes of the effective sources
`u_i` (a convex combination of the old voltage and the reversal potential), for EVERY positive time step -/
theorem no_overshoot [Nonempty ι] {w : ι → ι → ℝ} {σ u x : ι → ℝ} (h : Admissible w σ) {lo hi : ℝ}
    (hrow : ∀ i, row w σ x i = σ i * u i) (hlo : ∀ i, 0 < σ i → lo ≤ u i) (hhi : ∀ i, 0 < σ i → u i ≤ hi) :
    ∀ i, lo ≤ x i ∧ x i ≤ hi :=
  fun i => ⟨min_principle h hrow hlo i, max_principle h hrow hhi i⟩

/-- the effective source of a passive compartment lies between its old voltage and its reversal potential -/
theorem source_between {C g v E dt : ℝ} (hC : 0 < C) (hg : 0 ≤ g) (hdt : 0 < dt) :
    min v E ≤ (C / dt * v + g * E) / (C / dt + g) ∧ (C / dt * v + g * E) / (C / dt + g) ≤ max v E := by
  have hpos : 0 < C / dt + g := by positivity
  have hcd : 0 < C / dt := by positivity
  constructor
  · rw [le_div_iff₀ hpos]
    have h1 : min v E ≤ v := min_le_left _ _
    have h2 : min v E ≤ E := min_le_right _ _
    nlinarith
  · rw [div_le_iff₀ hpos]
    have h1 : v ≤ max v E := le_max_left _ _
    have h2 : E ≤ max v E := le_max_right _ _
    nlinarith

/-- a spatially uniform, unstimulated passive model at its reversal potential stays uniform -/
theorem uniform_stays_uniform [Nonempty ι] {w : ι → ι → ℝ} {σ x : ι → ℝ} (h : Admissible w σ) (c : ℝ)
    (hrow : ∀ i, row w σ x i = σ i * c) : ∀ i, x i = c := by
  intro i
  have := no_overshoot h (lo := c) (hi := c) hrow (fun _ _ => le_refl _) (fun _ _ => le_refl _) i
  linarith [this.1, this.2]

/-- reciprocity: the change at `j` caused by a current at `i` equals the change at `i` caused by the same
current at `j` -/
theorem reciprocity {w : ι → ι → ℝ} {σ : ι → ℝ} (hsym : ∀ i j, w i j = w j i) {x y : ι → ℝ} {i j : ι} {I : ℝ}
    (hI : I ≠ 0)
    (hx : ∀ k, row w σ x k = if k = i then I else 0) (hy : ∀ k, row w σ y k = if k = j then I else 0) :
    y i = x j :=
  mul_left_cancel₀ hI (reciprocity_point hsym hx hy)

/-- non-vacuity: a two-compartment system is admissible -/
example : Admissible (ι := Fin 2) (fun i j => if i = j then (0:ℝ) else 1) (fun _ => 1) :=
  ⟨fun i j => by split <;> norm_num, fun _ => by norm_num, fun i h => by norm_num at h⟩

end JaxleyVerif.Props.C02
