/-
C18 — modules survive pickling and deep copies unchanged and independent.

No theorem about `pickle`/`deepcopy` is possible.  What the model states is VALUE SEMANTICS: the state of a module is the value
`Mod`; running a further history on a copy is running it on the value, which cannot affect the original value.  The harness checks
that the implementation's copies behave like values (`α(copy) = α(original) = model(h)`, independence under further histories).
-/
import JaxleyVerif.Props.C19

namespace JaxleyVerif.Props.C18
open JaxleyVerif.Model.Ops JaxleyVerif.Props.C19

/-- a copy (the same value) evolves exactly as the original would: histories compose -/
theorem copy_behaves_as_original (m : Mod) (h2 : List Op) (copy : Mod) (hc : copy = m) :
    h2.foldl step copy = h2.foldl step m := by rw [hc]

/-- running `h ++ h2` is running `h2` on the state reached by `h` (what the harness compares with the edited copy) -/
theorem history_append (m : Mod) (h h2 : List Op) : (h ++ h2).foldl step m = h2.foldl step (h.foldl step m) :=
  List.foldl_append

/-- the invariant also holds for every state reached on the copy -/
theorem copy_stays_consistent (n : Nat) (geom : List (String × Nat)) (h h2 : List Op)
    (hv : ∀ o ∈ h ++ h2, o.Valid n) : WF ((h ++ h2).foldl step (init n geom)) :=
  wf_reachable n geom (h ++ h2) hv

end JaxleyVerif.Props.C18
