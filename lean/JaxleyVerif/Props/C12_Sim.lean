/-
C12 at the whole-simulation model `Model.Sim`: uncoupled parts simulate independently.
Purely structural: which rows of which tables the rows of the new state and of the linearisation are functions of.
-/
import JaxleyVerif.Model.Sim
import JaxleyVerif.Props.C08_Sim
import JaxleyVerif.Props.C09_Sim
import JaxleyVerif.Lemmas.CableLength

namespace JaxleyVerif.Props.Sim
open JaxleyVerif JaxleyVerif.Model JaxleyVerif.Model.Step

/-! ### rows of a state -/

/-- row `i` of the state: for every state name, the entry at index `i` (if the array is that long) -/
def Row (u : State Float) (i : Nat) : String → Option Float := fun k => (getArr u k)[i]?

theorem stateAt_eq_row (u : State Float) (i : Nat) :
    Model.Sim.stateAt u i = fun k => (Row u i k).getD Model.Sim.nan := by
  funext k
  unfold Model.Sim.stateAt Row
  rw [List.getD_eq_getElem?_getD]

theorem setEntry_row (u : State Float) (k : String) (i : Nat) (x : Float) (j : Nat) (k' : String) :
    Row (Model.Sim.setEntry u k i x) j k' =
      if j = i ∧ k' = k then (Row u i k).map (fun _ => x) else Row u j k' := by
  unfold Row Model.Sim.setEntry
  by_cases hk : k' = k
  · subst hk
    rw [C08.getArr_setArr, List.getElem?_set]
    by_cases hj : j = i
    · subst hj
      by_cases hl : j < (getArr u k').length <;> simp [hl]
    · have : ¬ i = j := fun h => hj h.symm
      simp [hj, this]
  · rw [getArr_setArr_ne _ _ _ _ hk]
    simp [hk]

/-- the effect of writing the (name, value) pairs `kv` into one row: only existing entries are overwritten -/
def rowApplyKV (row : String → Option Float) (kv : List (String × Float)) : String → Option Float :=
  kv.foldl (fun r kx => fun k' => if k' = kx.1 then (r kx.1).map (fun _ => kx.2) else r k') row

theorem Row_applyKV (i j : Nat) : ∀ (kv : List (String × Float)) (u : State Float),
    Row (kv.foldl (fun u kx => Model.Sim.setEntry u kx.1 i kx.2) u) j =
      if j = i then rowApplyKV (Row u i) kv else Row u j := by
  intro kv
  induction kv with
  | nil => intro u; by_cases h : j = i <;> simp [h, rowApplyKV]
  | cons kx t ih =>
    intro u
    rw [List.foldl_cons, ih]
    by_cases h : j = i
    · subst h
      simp only [if_true]
      show rowApplyKV _ t = rowApplyKV (fun k' => if k' = kx.1 then (Row u j kx.1).map (fun _ => kx.2) else Row u j k') t
      congr 1
      funext k'
      rw [setEntry_row]
      by_cases hk : k' = kx.1 <;> simp [hk]
    · simp only [h, if_false]
      funext k'
      rw [setEntry_row]
      simp [h]

theorem Row_fold_pairs (j : Nat) : ∀ (L : List (Nat × List (String × Float))) (u : State Float),
    Row (L.foldl (fun u ikv => ikv.2.foldl (fun u kx => Model.Sim.setEntry u kx.1 ikv.1 kx.2) u) u) j =
      (L.filter (fun ikv => ikv.1 == j)).foldl (fun r ikv => rowApplyKV r ikv.2) (Row u j) := by
  intro L
  induction L with
  | nil => intro u; rfl
  | cons a t ih =>
    intro u
    rw [List.foldl_cons, ih, Row_applyKV, List.filter_cons]
    by_cases h : a.1 = j
    · subst h
      simp
    · have h' : ¬ j = a.1 := fun he => h he.symm
      simp [h, h']

theorem range_filter_eq (n j : Nat) : (List.range n).filter (· == j) = if j < n then [j] else [] := by
  induction n with
  | zero => simp
  | succ n ih =>
    rw [List.range_succ, List.filter_append, ih]
    by_cases h : j < n
    · have : (n == j) = false := by simp; omega
      simp [h, this, Nat.lt_succ_of_lt h]
    · by_cases h2 : j = n
      · subst h2; simp
      · have : (n == j) = false := by simp; omega
        have h3 : ¬ j < n + 1 := by omega
        simp [h, this, h3]

theorem members_filter (c : Model.Sim.Chan) (j : Nat) :
    (Model.Sim.members c).filter (· == j) = if c.member.getD j false then [j] else [] := by
  unfold Model.Sim.members
  rw [List.filter_filter]
  have : (List.range c.member.size).filter (fun a => (a == j) && c.member.getD a false) =
      ((List.range c.member.size).filter (· == j)).filter (fun a => c.member.getD a false) := by
    rw [List.filter_filter]
    apply List.filter_congr
    intro a _
    rw [Bool.and_comm]
  rw [this, range_filter_eq]
  by_cases hj : j < c.member.size
  · simp only [hj, if_true, List.filter_cons, List.filter_nil]
  · have : c.member.getD j false = false := by
      simp [Array.getD_eq_getD_getElem?, Array.getElem?_eq_none (Nat.le_of_not_lt hj)]
    simp [hj, this]

/-! ### 4. the channel state update is row-wise -/

/-- the step of one channel (one vectorised call: every member row reads the state as it is before this channel) -/
def chanStep (m : SimModule) (dt : Float) (v : List Float) (u : State Float) (c : Model.Sim.Chan) : State Float :=
  ((Model.Sim.members c).map (fun i =>
    (i, Model.Sim.kernelKV (c.name ++ ".update_states") c.pfx #[dt, v.getD i Model.Sim.nan] (Model.Sim.stateAt u i)
      (Model.Sim.nodeParamAt m i)))).foldl
    (fun u ikv => ikv.2.foldl (fun u kx => Model.Sim.setEntry u kx.1 ikv.1 kx.2) u) u

theorem stepChannelsState_eq (m : SimModule) (dt : Float) (u : State Float) :
    Model.Sim.stepChannelsState m dt u = m.chans.foldl (chanStep m dt (getArr u "v")) u := rfl

/-- what one channel does to one row, as a function of the row, the channel's class and prefix, its membership flag for the
row, `dt`, the row's voltage and the row's parameters -/
def chanRowFn (name pfx : String) (flag : Bool) (dt vj : Float) (pr : String → Float)
    (row : String → Option Float) : String → Option Float :=
  if flag then
    rowApplyKV row (Model.Sim.kernelKV (name ++ ".update_states") pfx #[dt, vj]
      (fun k => (row k).getD Model.Sim.nan) pr)
  else row

theorem Row_chanStep (m : SimModule) (dt : Float) (v : List Float) (u : State Float) (c : Model.Sim.Chan) (j : Nat) :
    Row (chanStep m dt v u c) j =
      chanRowFn c.name c.pfx (c.member.getD j false) dt (v.getD j Model.Sim.nan) (Model.Sim.nodeParamAt m j) (Row u j) := by
  unfold chanStep chanRowFn
  rw [Row_fold_pairs, List.filter_map]
  have : (Model.Sim.members c).filter ((fun ikv : Nat × List (String × Float) => ikv.1 == j) ∘ fun i =>
      (i, Model.Sim.kernelKV (c.name ++ ".update_states") c.pfx #[dt, v.getD i Model.Sim.nan] (Model.Sim.stateAt u i)
        (Model.Sim.nodeParamAt m i))) = (Model.Sim.members c).filter (· == j) := rfl
  rw [this, members_filter]
  cases c.member.getD j false
  · rfl
  · simp only [if_true, List.map_cons, List.map_nil, List.foldl_cons, List.foldl_nil, stateAt_eq_row]

/-- (C12) **row `j` of the state after the channel state update** is obtained from row `j` of the old state by the channels'
row functions in `module.channels` order; it involves the channels' classes, prefixes and membership flags FOR ROW `j`, the
old voltage of row `j` and the parameter row `j` — no other row of any table -/
theorem Row_stepChannelsState (m : SimModule) (dt : Float) (u : State Float) (j : Nat) :
    Row (Model.Sim.stepChannelsState m dt u) j =
      (m.chans.map (fun c => (c.name, c.pfx, c.member.getD j false))).foldl
        (fun r t => chanRowFn t.1 t.2.1 t.2.2 dt ((getArr u "v").getD j Model.Sim.nan) (Model.Sim.nodeParamAt m j) r)
        (Row u j) := by
  rw [stepChannelsState_eq, List.foldl_map]
  generalize getArr u "v" = v
  suffices h : ∀ (cs : List Model.Sim.Chan) (w : State Float), Row (cs.foldl (chanStep m dt v) w) j =
      cs.foldl (fun r c => chanRowFn c.name c.pfx (c.member.getD j false) dt (v.getD j Model.Sim.nan)
        (Model.Sim.nodeParamAt m j) r) (Row w j) from h m.chans u
  intro cs
  induction cs with
  | nil => intro w; rfl
  | cons c t ih =>
    intro w
    rw [List.foldl_cons, List.foldl_cons, ih, Row_chanStep]

/-- (C12) **the channel state update is row-wise**: two modules / states with the same channel list (classes, prefixes, in
order) that agree on the membership flags of row `j`, on the parameter row `j` and on row `j` of the state (which contains
`v[j]`) have the same row `j` afterwards -/
theorem sim_mech_rowwise_states (m m' : SimModule) (dt : Float) (u u' : State Float) (j : Nat)
    (hch : m.chans.map (fun c => (c.name, c.pfx, c.member.getD j false)) =
      m'.chans.map (fun c => (c.name, c.pfx, c.member.getD j false)))
    (hpr : Model.Sim.nodeParamAt m j = Model.Sim.nodeParamAt m' j) (hrow : Row u j = Row u' j) :
    Row (Model.Sim.stepChannelsState m dt u) j = Row (Model.Sim.stepChannelsState m' dt u') j := by
  have hv : (getArr u "v").getD j Model.Sim.nan = (getArr u' "v").getD j Model.Sim.nan := by
    have := congrFun hrow "v"
    unfold Row at this
    rw [List.getD_eq_getElem?_getD, List.getD_eq_getElem?_getD, this]
  rw [Row_stepChannelsState, Row_stepChannelsState, hch, hpr, hrow, hv]

/-! ### 4'. the channel linearisation is row-wise -/

/-- the secant linearisation `(voltage term, constant term)` of one channel in one row, as a function of the channel's class
and prefix, the row's voltage, state row and parameter row -/
def chanTermFn (name pfx : String) (vi : Float) (st pr : String → Float) : Float × Float :=
  let i0 := Model.Sim.kernel1 (name ++ ".compute_current") pfx #[vi] st pr
  let i1 := Model.Sim.kernel1 (name ++ ".compute_current") pfx #[vi + Model.Sim.diff] st pr
  let vt := (i1 - i0) / Model.Sim.diff
  (vt, i0 - vt * vi)

abbrev CCAcc := Array Float × Array Float × List (String × Array Float)

/-- the accumulation step of `_channel_currents` for one member row of one channel -/
def ccInner (m : SimModule) (u : State Float) (v : List Float) (c : Model.Sim.Chan) (cname : String) (acc : CCAcc)
    (i : Nat) : CCAcc :=
  let vi := v.getD i Model.Sim.nan
  let st := Model.Sim.stateAt u i
  let pr := Model.Sim.nodeParamAt m i
  let i0 := Model.Sim.kernel1 (c.name ++ ".compute_current") c.pfx #[vi] st pr
  let i1 := Model.Sim.kernel1 (c.name ++ ".compute_current") c.pfx #[vi + Model.Sim.diff] st pr
  let vt := (i1 - i0) / Model.Sim.diff
  let ct := i0 - vt * vi
  (acc.1.modify i (· + vt * 1000.0),
   acc.2.1.modify i (· + (-ct) * 1000.0),
   acc.2.2.map (fun p => if p.1 == cname then (p.1, p.2.modify i (· + i0)) else p))

def ccOuter (m : SimModule) (u : State Float) (v : List Float) (acc : CCAcc) (c : Model.Sim.Chan) : CCAcc :=
  (Model.Sim.members c).foldl
    (ccInner m u v c ((Gen.dispatchStr (c.name ++ ".current_name") c.pfx).getD ("i_" ++ c.pfx))) acc

def ccInit (m : SimModule) : CCAcc :=
  (Array.replicate (Model.Sim.ncompTotal m) 0.0, Array.replicate (Model.Sim.ncompTotal m) 0.0,
    (Model.Sim.currentNames m).map (fun k => (k, Array.replicate (Model.Sim.ncompTotal m) 0.0)))

theorem channelCurrents_terms (m : SimModule) (u : State Float) :
    (Model.Sim.channelCurrents m u).2.1 = (m.chans.foldl (ccOuter m u (getArr u "v")) (ccInit m)).1 ∧
    (Model.Sim.channelCurrents m u).2.2 = (m.chans.foldl (ccOuter m u (getArr u "v")) (ccInit m)).2.1 := ⟨rfl, rfl⟩

/-- the pair (voltage-term entry, constant-term entry) of row `j` in an accumulator -/
def accRow (acc : CCAcc) (j : Nat) : Option Float × Option Float := (acc.1[j]?, acc.2.1[j]?)

/-- what one channel adds to row `j` of the two term arrays -/
def termRowFn (name pfx : String) (flag : Bool) (vj : Float) (st pr : String → Float)
    (p : Option Float × Option Float) : Option Float × Option Float :=
  if flag then
    (p.1.map (· + (chanTermFn name pfx vj st pr).1 * 1000.0), p.2.map (· + (-(chanTermFn name pfx vj st pr).2) * 1000.0))
  else p

theorem accRow_inner (m : SimModule) (u : State Float) (v : List Float) (c : Model.Sim.Chan) (cname : String) (j : Nat) :
    ∀ (L : List Nat) (acc : CCAcc), accRow (L.foldl (ccInner m u v c cname) acc) j =
      (L.filter (· == j)).foldl (fun p _ => termRowFn c.name c.pfx true (v.getD j Model.Sim.nan)
        (Model.Sim.stateAt u j) (Model.Sim.nodeParamAt m j) p) (accRow acc j) := by
  intro L
  induction L with
  | nil => intro acc; rfl
  | cons i t ih =>
    intro acc
    rw [List.foldl_cons, ih, List.filter_cons]
    by_cases h : i = j
    · subst h
      simp only [beq_self_eq_true, if_true, List.foldl_cons]
      congr 1
      unfold accRow ccInner termRowFn chanTermFn
      simp only [Array.getElem?_modify, if_true]
    · have h' : (i == j) = false := by simpa using h
      simp only [h', Bool.false_eq_true, if_false]
      congr 1
      unfold accRow ccInner
      simp only [Array.getElem?_modify, h, if_false]

theorem accRow_outer (m : SimModule) (u : State Float) (v : List Float) (j : Nat) :
    ∀ (cs : List Model.Sim.Chan) (acc : CCAcc), accRow (cs.foldl (ccOuter m u v) acc) j =
      cs.foldl (fun p c => termRowFn c.name c.pfx (c.member.getD j false) (v.getD j Model.Sim.nan)
        (Model.Sim.stateAt u j) (Model.Sim.nodeParamAt m j) p) (accRow acc j) := by
  intro cs
  induction cs with
  | nil => intro acc; rfl
  | cons c t ih =>
    intro acc
    rw [List.foldl_cons, List.foldl_cons, ih]
    congr 1
    unfold ccOuter
    rw [accRow_inner, members_filter]
    cases c.member.getD j false
    · rfl
    · rfl

/-- (C12) **row `j` of the channel linearisation** (`voltage_terms[j]`, `constant_terms[j]` of `_channel_currents`): starting
from `0.0`, every channel that contains row `j` adds its secant terms, computed from the row's voltage, state row and
parameter row — no other row of any table is read -/
theorem termRow_channelCurrents (m : SimModule) (u : State Float) (j : Nat) :
    ((Model.Sim.channelCurrents m u).2.1[j]?, (Model.Sim.channelCurrents m u).2.2[j]?) =
      (m.chans.map (fun c => (c.name, c.pfx, c.member.getD j false))).foldl
        (fun p t => termRowFn t.1 t.2.1 t.2.2 ((getArr u "v").getD j Model.Sim.nan)
          (fun k => (Row u j k).getD Model.Sim.nan) (Model.Sim.nodeParamAt m j) p)
        (if j < Model.Sim.ncompTotal m then (some 0.0, some 0.0) else (none, none)) := by
  obtain ⟨h1, h2⟩ := channelCurrents_terms m u
  rw [h1, h2, List.foldl_map]
  have := accRow_outer m u (getArr u "v") j m.chans (ccInit m)
  unfold accRow at this
  rw [this, stateAt_eq_row]
  congr 1
  unfold ccInit
  by_cases hj : j < Model.Sim.ncompTotal m <;> simp [hj]

/-- (C12) **the channel linearisation is row-wise**: same channel list (classes, prefixes, in order), same membership flags
of row `j`, same parameter row `j`, same state row `j` (which contains `v[j]`) ⇒ same `voltage_terms[j]`, `constant_terms[j]` -/
theorem sim_mech_rowwise_terms (m m' : SimModule) (u u' : State Float) (j : Nat)
    (hn : (j < Model.Sim.ncompTotal m) ↔ (j < Model.Sim.ncompTotal m'))
    (hch : m.chans.map (fun c => (c.name, c.pfx, c.member.getD j false)) =
      m'.chans.map (fun c => (c.name, c.pfx, c.member.getD j false)))
    (hpr : Model.Sim.nodeParamAt m j = Model.Sim.nodeParamAt m' j) (hrow : Row u j = Row u' j) :
    ((Model.Sim.channelCurrents m u).2.1[j]?, (Model.Sim.channelCurrents m u).2.2[j]?) =
      ((Model.Sim.channelCurrents m' u').2.1[j]?, (Model.Sim.channelCurrents m' u').2.2[j]?) := by
  have hv : (getArr u "v").getD j Model.Sim.nan = (getArr u' "v").getD j Model.Sim.nan := by
    have := congrFun hrow "v"
    unfold Row at this
    rw [List.getD_eq_getElem?_getD, List.getD_eq_getElem?_getD, this]
  rw [termRow_channelCurrents, termRow_channelCurrents, hch, hpr, hrow, hv]
  by_cases h : j < Model.Sim.ncompTotal m
  · rw [if_pos h, if_pos (hn.mp h)]
  · rw [if_neg h, if_neg (fun h' => h (hn.mpr h'))]

/-! ### 5. one step, cell by cell (module without synapses, stimuli as the only externals) -/

section step
open JaxleyVerif.Model.Cable

theorem clampStates_only_i {α : Type} : ∀ (exts : List (Ext α)) (u : State α), (∀ e ∈ exts, e.key = "i") →
    clampStates u exts = u := by
  intro exts
  induction exts with
  | nil => intro u _; rfl
  | cons e t ih =>
    intro u h
    have he : (e.key == "i" || e.key == "v") = true := by simp [h e (by simp)]
    show clampStates (if (e.key == "i" || e.key == "v") = true then u else _) t = u
    rw [if_pos he]
    exact ih u (fun e' he' => h e' (List.mem_cons_of_mem _ he'))

/-- the linearisation `gm` the mechanism step stores for the solver when there are no synapses -/
def gmOf (m : SimModule) (dt : Float) (u : State Float) : List Float :=
  (List.range (Model.Sim.ncompTotal m)).map (fun i =>
    (Model.Sim.channelCurrents m (Model.Sim.stepChannelsState m dt u)).2.1.getD i 0.0 + (0 : Float))
def kmOf (m : SimModule) (dt : Float) (u : State Float) : List Float :=
  (List.range (Model.Sim.ncompTotal m)).map (fun i =>
    (Model.Sim.channelCurrents m (Model.Sim.stepChannelsState m dt u)).2.2.getD i 0.0 + (0 : Float))

/-- the new voltages of cell `k` : the solve of that cell on its slices of the old voltages, of the channel linearisation
and of the stimulus -/
def stepBlock (m : SimModule) (solver : String) (dt : Float) (u : State Float) (exts : List (Ext Float)) (k : Nat) :
    List Float :=
  solveCell solver dt (Model.Sim.cellIn m k (getArr u "v").toArray (gmOf m dt u).toArray (kmOf m dt u).toArray
    (Model.Sim.iExt m (exts.map (toLocal m))).toArray)

/-- (C12) **the voltages after one step are the concatenation of the cells' blocks** (module without synapses, stimuli as the
only externals) -/
theorem sim_step_v_blocks (m : SimModule) (solver : String) (dt : Float) (u : State Float) (exts : List (Ext Float))
    (hm : m.syns = []) (hk : ∀ e ∈ exts, e.key = "i") :
    getArr (Model.Sim.step m solver dt u exts) "v" =
      (List.range m.cells.length).flatMap (stepBlock m solver dt u exts) := by
  have hk' : ∀ e ∈ exts.map (toLocal m), e.key = "i" := by
    intro e he
    obtain ⟨e', he', rfl⟩ := List.mem_map.mp he
    exact hk e' he'
  have hnov : ∀ e ∈ exts.map (toLocal m), e.key ≠ "v" := by
    intro e he h
    rw [hk' e he] at h
    exact absurd h (by decide)
  rw [sim_step_eq]
  show getArr (clampV (setArr (clampStates _ _) "v" _) _) "v" = _
  rw [clampV_no_v _ _ hnov, C08.getArr_setArr, clampStates_only_i _ _ hk', sim_solve_cellwise, sim_no_synapses m hm]
  have hne : Model.Sim.keyGm ≠ Model.Sim.keyKm := by decide
  rw [C08.getArr_setArr, getArr_setArr_ne _ _ _ _ hne, C08.getArr_setArr]
  rfl

/-- (C12) **block `k` depends on cell `k`'s slices only** (inputs of the solve): if the two modules agree on cell `k`'s entry
of `cells`, on its slice of `comps`, and the old voltages, the channel linearisation and the stimulus agree on the rows of
cell `k`, the new voltages of cell `k` agree -/
theorem sim_step_block_congr (m m' : SimModule) (solver : String) (dt : Float) (u u' : State Float)
    (exts exts' : List (Ext Float)) (k : Nat)
    (hc : m.cells.getD k ([], []) = m'.cells.getD k ([], []))
    (hcomps : ∀ i, i < nTotal (m.cells.getD k ([], [])).2 →
      m.comps.getD ((Model.Sim.cellOffsets m).getD k 0 + i) default =
        m'.comps.getD ((Model.Sim.cellOffsets m').getD k 0 + i) default)
    (hsl : ∀ i, i < nTotal (m.cells.getD k ([], [])).2 →
      (getArr u "v").toArray.getD ((Model.Sim.cellOffsets m).getD k 0 + i) 0.0 =
        (getArr u' "v").toArray.getD ((Model.Sim.cellOffsets m').getD k 0 + i) 0.0 ∧
      (gmOf m dt u).toArray.getD ((Model.Sim.cellOffsets m).getD k 0 + i) 0.0 =
        (gmOf m' dt u').toArray.getD ((Model.Sim.cellOffsets m').getD k 0 + i) 0.0 ∧
      (kmOf m dt u).toArray.getD ((Model.Sim.cellOffsets m).getD k 0 + i) 0.0 =
        (kmOf m' dt u').toArray.getD ((Model.Sim.cellOffsets m').getD k 0 + i) 0.0 ∧
      (Model.Sim.iExt m (exts.map (toLocal m))).toArray.getD ((Model.Sim.cellOffsets m).getD k 0 + i) 0.0 =
        (Model.Sim.iExt m' (exts'.map (toLocal m'))).toArray.getD ((Model.Sim.cellOffsets m').getD k 0 + i) 0.0) :
    stepBlock m solver dt u exts k = stepBlock m' solver dt u' exts' k :=
  sim_cell_block_independent m m' solver dt k _ _ _ _ _ _ _ _ hc hcomps hsl

/-! #### the rows of the inputs of the solve -/

/-- the data of row `r` the channel part of the mechanism step reads: per channel (class, prefix, membership flag of the row),
the parameter row, the state row -/
def rowData (m : SimModule) (u : State Float) (r : Nat) :
    List (String × String × Bool) × (String → Float) × (String → Option Float) :=
  (m.chans.map (fun c => (c.name, c.pfx, c.member.getD r false)), Model.Sim.nodeParamAt m r, Row u r)

theorem v_of_row (u : State Float) (r : Nat) (d : Float) : (getArr u "v").getD r d = (Row u r "v").getD d := by
  unfold Row
  rw [List.getD_eq_getElem?_getD]

/-- (C12) rows with the same data have the same row after the channel state update and the same channel linearisation -/
theorem rows_after_channels (m m' : SimModule) (dt : Float) (u u' : State Float) (r r' : Nat)
    (hr : r < Model.Sim.ncompTotal m) (hr' : r' < Model.Sim.ncompTotal m') (hd : rowData m u r = rowData m' u' r') :
    Row (Model.Sim.stepChannelsState m dt u) r = Row (Model.Sim.stepChannelsState m' dt u') r' ∧
    (gmOf m dt u).toArray.getD r 0.0 = (gmOf m' dt u').toArray.getD r' 0.0 ∧
    (kmOf m dt u).toArray.getD r 0.0 = (kmOf m' dt u').toArray.getD r' 0.0 := by
  unfold rowData at hd
  obtain ⟨hch, hpr, hrow⟩ : m.chans.map (fun c => (c.name, c.pfx, c.member.getD r false)) =
      m'.chans.map (fun c => (c.name, c.pfx, c.member.getD r' false)) ∧
      Model.Sim.nodeParamAt m r = Model.Sim.nodeParamAt m' r' ∧ Row u r = Row u' r' := by
    have h1 := congrArg Prod.fst hd
    have h2 := congrArg (fun t => t.2.1) hd
    have h3 := congrArg (fun t => t.2.2) hd
    exact ⟨h1, h2, h3⟩
  have hrow1 : Row (Model.Sim.stepChannelsState m dt u) r = Row (Model.Sim.stepChannelsState m' dt u') r' := by
    rw [Row_stepChannelsState, Row_stepChannelsState, hch, hpr, hrow, v_of_row, v_of_row, hrow]
  have hterms := termRow_channelCurrents m (Model.Sim.stepChannelsState m dt u) r
  have hterms' := termRow_channelCurrents m' (Model.Sim.stepChannelsState m' dt u') r'
  rw [if_pos hr, hch, hpr, hrow1, v_of_row, hrow1] at hterms
  rw [if_pos hr', v_of_row] at hterms'
  have heq := hterms.trans hterms'.symm
  have e1 := congrArg Prod.fst heq
  have e2 := congrArg Prod.snd heq
  simp only at e1 e2
  refine ⟨hrow1, ?_, ?_⟩
  · unfold gmOf
    simp [Array.getD_eq_getD_getElem?, hr, hr', e1]
  · unfold kmOf
    simp [Array.getD_eq_getD_getElem?, hr, hr', e2]

/-- the stimulus samples of one external that hit row `r`, in order -/
def valsAt (e : Ext Float) (r : Nat) : List Float := ((e.inds.zip e.vals).filter (fun iv => iv.1 == r)).map (·.2)

theorem scatterAdd_row (r : Nat) : ∀ (L : List (Nat × Float)) (acc : List Float),
    (L.foldl (fun acc iv => if iv.1 < acc.length then acc.set iv.1 (acc.getD iv.1 0 + iv.2) else acc) acc)[r]? =
      ((L.filter (fun iv => iv.1 == r)).map (·.2)).foldl (fun a x => a.map (· + x)) acc[r]? := by
  intro L
  induction L with
  | nil => intro acc; rfl
  | cons iv t ih =>
    intro acc
    rw [List.foldl_cons, ih, List.filter_cons]
    by_cases h : iv.1 = r
    · have hb : (iv.1 == r) = true := by simpa using h
      rw [hb]
      simp only [if_true, List.map_cons, List.foldl_cons]
      congr 1
      by_cases hl : iv.1 < acc.length
      · rw [if_pos hl, List.getElem?_set, if_pos h, if_pos hl, ← h, List.getElem?_eq_getElem hl,
          List.getD_eq_getElem?_getD, List.getElem?_eq_getElem hl]
        rfl
      · rw [if_neg hl, ← h, List.getElem?_eq_none (Nat.le_of_not_lt hl)]
        rfl
    · have hb : (iv.1 == r) = false := by simpa using h
      rw [hb]
      simp only [Bool.false_eq_true, if_false]
      congr 1
      by_cases hl : iv.1 < acc.length
      · rw [if_pos hl, List.getElem?_set, if_neg h]
      · rw [if_neg hl]

/-- the stimulus of row `r` as a function of the samples that hit row `r` -/
def stimRow (E : List (String × List Float)) : Float :=
  E.foldl (fun a e => if e.1 == "i" then a + ((e.2.foldl (fun a x => a.map (· + x)) (some (0 : Float))).getD 0.0) else a) 0.0

/-- (C12) **the stimulus of row `r` depends on the samples addressed to row `r` only** -/
theorem iExt_row (m : SimModule) (r : Nat) (hr : r < Model.Sim.ncompTotal m) (E : List (Ext Float)) :
    (Model.Sim.iExt m E).toArray.getD r 0.0 = stimRow (E.map (fun e => (e.key, valsAt e r))) := by
  unfold Model.Sim.iExt stimRow
  rw [List.foldl_map]
  suffices h : ∀ (E : List (Ext Float)) (acc : List Float) (a : Float), acc.getD r 0.0 = a →
      (E.foldl (fun acc e => if e.key == "i" then
          (List.range (Model.Sim.ncompTotal m)).map (fun i => acc.getD i 0.0 +
            (scatterAdd (Model.Sim.ncompTotal m) e.inds e.vals).getD i 0.0) else acc) acc).getD r 0.0 =
        E.foldl (fun a e => if (e.key == "i") = true then
          a + (((valsAt e r).foldl (fun a x => a.map (· + x)) (some (0 : Float))).getD 0.0) else a) a by
    simp only [Array.getD_eq_getD_getElem?, List.getElem?_toArray]
    rw [← List.getD_eq_getElem?_getD]
    exact h E _ _ (by simp [List.getD_eq_getElem?_getD, hr])
  intro E
  induction E with
  | nil => intro acc a h; exact h
  | cons e t ih =>
    intro acc a h
    rw [List.foldl_cons, List.foldl_cons]
    apply ih
    cases hk : (e.key == "i")
    · simpa using h
    · simp only [if_true]
      have hs : (scatterAdd (Model.Sim.ncompTotal m) e.inds e.vals).getD r 0.0 =
          ((valsAt e r).foldl (fun a x => a.map (· + x)) (some (0 : Float))).getD 0.0 := by
        unfold scatterAdd valsAt
        rw [List.getD_eq_getElem?_getD, scatterAdd_row]
        simp [hr]
      simp [List.getD_eq_getElem?_getD, hr, ← hs, ← h]

/-- (C12) **one step is independent cell by cell** (module without synapses, stimuli as the only externals — for such a step
`sim_step_v_blocks` shows that `stepBlock … k` is the block of new voltages of cell `k`): if two modules agree on cell `k`'s
entry of `cells` and, row by row over cell `k` (row `i` of the cell is global row `cellOffsets … k + i` in each module), on
`comps`, on the channels' classes, prefixes and membership flags, on the parameter row, on the state row (all state arrays,
including `v`) and on the stimulus samples addressed to the row, then the new voltages of cell `k` agree — whatever the
other cells are and do -/
theorem sim_step_cell_independent (m m' : SimModule) (solver : String) (dt : Float) (u u' : State Float)
    (exts exts' : List (Ext Float)) (k : Nat)
    (hc : m.cells.getD k ([], []) = m'.cells.getD k ([], []))
    (hin : (Model.Sim.cellOffsets m).getD k 0 + nTotal (m.cells.getD k ([], [])).2 ≤ Model.Sim.ncompTotal m)
    (hin' : (Model.Sim.cellOffsets m').getD k 0 + nTotal (m.cells.getD k ([], [])).2 ≤ Model.Sim.ncompTotal m')
    (hrows : ∀ i, i < nTotal (m.cells.getD k ([], [])).2 →
      m.comps.getD ((Model.Sim.cellOffsets m).getD k 0 + i) default =
        m'.comps.getD ((Model.Sim.cellOffsets m').getD k 0 + i) default ∧
      rowData m u ((Model.Sim.cellOffsets m).getD k 0 + i) = rowData m' u' ((Model.Sim.cellOffsets m').getD k 0 + i) ∧
      (exts.map (toLocal m)).map (fun e => (e.key, valsAt e ((Model.Sim.cellOffsets m).getD k 0 + i))) =
        (exts'.map (toLocal m')).map (fun e => (e.key, valsAt e ((Model.Sim.cellOffsets m').getD k 0 + i)))) :
    stepBlock m solver dt u exts k = stepBlock m' solver dt u' exts' k := by
  apply sim_step_block_congr m m' solver dt u u' exts exts' k hc (fun i hi => (hrows i hi).1)
  intro i hi
  obtain ⟨-, hd, he⟩ := hrows i hi
  have hr : (Model.Sim.cellOffsets m).getD k 0 + i < Model.Sim.ncompTotal m := by omega
  have hr' : (Model.Sim.cellOffsets m').getD k 0 + i < Model.Sim.ncompTotal m' := by omega
  obtain ⟨-, hg, hkm⟩ := rows_after_channels m m' dt u u' _ _ hr hr' hd
  refine ⟨?_, hg, hkm, ?_⟩
  · have h3 : Row u ((Model.Sim.cellOffsets m).getD k 0 + i) = Row u' ((Model.Sim.cellOffsets m').getD k 0 + i) :=
      congrArg (fun t => t.2.2) hd
    simp only [Array.getD_eq_getD_getElem?, List.getElem?_toArray]
    rw [← List.getD_eq_getElem?_getD, ← List.getD_eq_getElem?_getD, v_of_row, v_of_row, h3]
  · rw [iExt_row m _ hr, iExt_row m' _ hr', he]

end step

section rows
open JaxleyVerif.Model.Cable

/-! ### 6. the rows of cell `k` after one step and after a run -/

/-- the cell solvers return one voltage per compartment for this (module, solver): implicit solvers always, forward Euler
when no cell has a branch point (otherwise the code refuses to run, see `Sim.accepts`) -/
def solverOkB (m : SimModule) (solver : String) : Bool :=
  solver == "bwd_euler" || solver == "crank_nicolson" || !Model.Sim.refusesFwd m

/-- `cellOffsets` are the running sums of the cells' compartment counts -/
def offsetsOkB (m : SimModule) : Bool :=
  (List.range m.cells.length).all (fun k =>
    (Model.Sim.cellOffsets m).getD k 0 ==
      ((List.range k).map (fun j => nTotal (m.cells.getD j ([], [])).2)).foldl (· + ·) 0)

theorem solveCell_length (solver : String) (dt : Float) (c : CellIn Float)
    (h : solver = "bwd_euler" ∨ solver = "crank_nicolson" ∨ (stepFwd c dt).isSome = true) :
    (solveCell solver dt c).length = nTotal c.ncomp := by
  unfold solveCell
  split
  · exact stepBwd_length c dt
  · exact stepCN_length c dt
  · rename_i h1 h2
    rcases h with h | h | h
    · exact absurd h h1
    · exact absurd h h2
    · obtain ⟨l, hl⟩ := Option.isSome_iff_exists.mp h
      rw [hl]
      exact stepFwd_length c dt l hl

theorem block_length (m : SimModule) (solver : String) (dt : Float) (u : State Float) (exts : List (Ext Float)) (k : Nat)
    (hs : solverOkB m solver = true) (hk : k < m.cells.length) :
    (stepBlock m solver dt u exts k).length = nTotal (m.cells.getD k ([], [])).2 := by
  unfold stepBlock
  rw [solveCell_length]
  · rfl
  · unfold solverOkB at hs
    simp only [Bool.or_eq_true, beq_iff_eq, Bool.not_eq_true'] at hs
    rcases hs with (h | h) | h
    · exact Or.inl h
    · exact Or.inr (Or.inl h)
    · right; right
      rw [stepFwd_isSome]
      unfold Model.Sim.refusesFwd at h
      have := (List.any_eq_false.mp h) (m.cells.getD k ([], [])) (by
        rw [List.getD_eq_getElem?_getD, List.getElem?_eq_getElem hk]
        exact List.getElem_mem hk)
      simp only [Bool.not_eq_true] at this
      show (!(compEdges (m.cells.getD k ([], [])).1 (m.cells.getD k ([], [])).2).any (fun e => e.2.2 != 0)) = true
      rw [this]
      rfl

theorem flatMap_range_length (f : Nat → List Float) (g : Nat → Nat) (n : Nat) (h : ∀ j, j < n → (f j).length = g j) :
    ((List.range n).flatMap f).length = ((List.range n).map g).foldl (· + ·) 0 := by
  induction n with
  | zero => rfl
  | succ n ih =>
    rw [List.range_succ, List.flatMap_append, List.length_append, List.map_append, List.foldl_append,
      ih (fun j hj => h j (Nat.lt_succ_of_lt hj))]
    simp [h n (Nat.lt_succ_self n)]

theorem flatMap_range_get (f : Nat → List Float) (g : Nat → Nat) (n : Nat) (h : ∀ j, j < n → (f j).length = g j)
    (k : Nat) (hk : k < n) (i : Nat) (hi : i < g k) :
    ((List.range n).flatMap f)[((List.range k).map g).foldl (· + ·) 0 + i]? = (f k)[i]? := by
  induction n with
  | zero => omega
  | succ n ih =>
    rw [List.range_succ, List.flatMap_append]
    by_cases hkn : k < n
    · have ih' := ih (fun j hj => h j (Nat.lt_succ_of_lt hj)) hkn
      have hsome : (f k)[i]? = some ((f k)[i]'(by rw [h k hk]; exact hi)) := List.getElem?_eq_getElem _
      rw [hsome] at ih'
      have hlt := (List.getElem?_eq_some_iff.mp ih').1
      rw [List.getElem?_append_left hlt, ih', hsome]
    · have hkn' : k = n := by omega
      subst hkn'
      rw [List.getElem?_append_right (by
        rw [flatMap_range_length f g k (fun j hj => h j (Nat.lt_succ_of_lt hj))]; omega),
        flatMap_range_length f g k (fun j hj => h j (Nat.lt_succ_of_lt hj))]
      simp

/-- (C12) **row `off_k + i` of the new voltage array is entry `i` of cell `k`'s block** -/
theorem v_row_block (m : SimModule) (solver : String) (dt : Float) (u : State Float) (exts : List (Ext Float))
    (hm : m.syns = []) (hke : ∀ e ∈ exts, e.key = "i") (hs : solverOkB m solver = true) (hoff : offsetsOkB m = true)
    (k : Nat) (hk : k < m.cells.length) (i : Nat) (hi : i < nTotal (m.cells.getD k ([], [])).2) :
    (getArr (Model.Sim.step m solver dt u exts) "v")[(Model.Sim.cellOffsets m).getD k 0 + i]? =
      (stepBlock m solver dt u exts k)[i]? := by
  rw [sim_step_v_blocks m solver dt u exts hm hke]
  have ho : (Model.Sim.cellOffsets m).getD k 0 =
      ((List.range k).map (fun j => nTotal (m.cells.getD j ([], [])).2)).foldl (· + ·) 0 := by
    unfold offsetsOkB at hoff
    have := (List.all_eq_true.mp hoff) k (List.mem_range.mpr hk)
    simpa using this
  rw [ho]
  exact flatMap_range_get _ _ _ (fun j hj => block_length m solver dt u exts j hs hj) k hk i hi

/-! #### the membrane currents stored as states by `_channel_currents`, row by row -/

/-- the name under which a channel's current is stored -/
def cnameOf (name pfx : String) : String := (Gen.dispatchStr (name ++ ".current_name") pfx).getD ("i_" ++ pfx)

/-- the current of one channel in one row -/
def i0Fn (name pfx : String) (vj : Float) (st pr : String → Float) : Float :=
  Model.Sim.kernel1 (name ++ ".compute_current") pfx #[vj] st pr

/-- row `j` of the current arrays of an accumulator, with their names -/
def curRow (acc : CCAcc) (j : Nat) : List (String × Option Float) := acc.2.2.map (fun p => (p.1, p.2[j]?))

theorem curRow_inner (m : SimModule) (u : State Float) (v : List Float) (c : Model.Sim.Chan) (cname : String) (j : Nat) :
    ∀ (L : List Nat) (acc : CCAcc), curRow (L.foldl (ccInner m u v c cname) acc) j =
      (curRow acc j).map (fun q => (q.1, (L.filter (· == j)).foldl (fun o _ =>
        if q.1 == cname then o.map (· + i0Fn c.name c.pfx (v.getD j Model.Sim.nan) (Model.Sim.stateAt u j)
          (Model.Sim.nodeParamAt m j)) else o) q.2)) := by
  intro L
  induction L with
  | nil => intro acc; simp
  | cons i t ih =>
    intro acc
    rw [List.foldl_cons, ih]
    have h1 : curRow (ccInner m u v c cname acc i) j = (curRow acc j).map (fun q =>
        (q.1, if i = j ∧ (q.1 == cname) = true then q.2.map (· + i0Fn c.name c.pfx (v.getD i Model.Sim.nan)
          (Model.Sim.stateAt u i) (Model.Sim.nodeParamAt m i)) else q.2)) := by
      unfold curRow ccInner i0Fn
      simp only [List.map_map]
      apply List.map_congr_left
      intro p _
      simp only [Function.comp]
      by_cases hp : (p.1 == cname) = true
      · simp only [hp, if_true, Array.getElem?_modify, and_true]
      · have hp' : (p.1 == cname) = false := by simpa using hp
        simp [hp']
    rw [h1, List.map_map]
    apply List.map_congr_left
    intro q _
    simp only [Function.comp, List.filter_cons]
    by_cases hij : i = j
    · subst hij
      simp only [beq_self_eq_true, if_true, true_and, List.foldl_cons]
    · have hb : (i == j) = false := by simpa using hij
      simp only [hb, hij, false_and, if_false, Bool.false_eq_true]

theorem curRow_outer (m : SimModule) (u : State Float) (v : List Float) (j : Nat) :
    ∀ (cs : List Model.Sim.Chan) (acc : CCAcc), curRow (cs.foldl (ccOuter m u v) acc) j =
      (curRow acc j).map (fun q => (q.1, cs.foldl (fun o c =>
        if c.member.getD j false && q.1 == cnameOf c.name c.pfx then
          o.map (· + i0Fn c.name c.pfx (v.getD j Model.Sim.nan) (Model.Sim.stateAt u j) (Model.Sim.nodeParamAt m j))
        else o) q.2)) := by
  intro cs
  induction cs with
  | nil => intro acc; simp
  | cons c t ih =>
    intro acc
    rw [List.foldl_cons, ih]
    have h1 : curRow (ccOuter m u v acc c) j = (curRow acc j).map (fun q => (q.1,
        if c.member.getD j false && q.1 == cnameOf c.name c.pfx then
          q.2.map (· + i0Fn c.name c.pfx (v.getD j Model.Sim.nan) (Model.Sim.stateAt u j) (Model.Sim.nodeParamAt m j))
        else q.2)) := by
      unfold ccOuter
      rw [curRow_inner, members_filter]
      apply List.map_congr_left
      intro q _
      cases c.member.getD j false
      · simp
      · simp only [if_true, List.foldl_cons, List.foldl_nil, Bool.true_and]
        rfl
    rw [h1, List.map_map]
    apply List.map_congr_left
    intro q _
    simp only [Function.comp, List.foldl_cons]

theorem Row_setArr (u : State Float) (k : String) (a : List Float) (j : Nat) (k' : String) :
    Row (setArr u k a) j k' = if k' = k then a[j]? else Row u j k' := by
  unfold Row
  by_cases h : k' = k
  · subst h; rw [C08.getArr_setArr, if_pos rfl]
  · rw [getArr_setArr_ne _ _ _ _ h, if_neg h]

/-- the entry of the LAST pair with name `k'` (the write that wins), `dflt` if there is none -/
def lastRow (rows : List (String × Option Float)) (k' : String) (dflt : Option Float) : Option Float :=
  rows.foldl (fun o q => if q.1 == k' then q.2 else o) dflt

theorem Row_fold_setArr_pairs (j : Nat) (k' : String) : ∀ (L : List (String × Array Float)) (u : State Float),
    Row (L.foldl (fun u p => setArr u p.1 p.2.toList) u) j k' =
      lastRow (L.map (fun p => (p.1, p.2[j]?))) k' (Row u j k') := by
  intro L
  induction L with
  | nil => intro u; rfl
  | cons p t ih =>
    intro u
    rw [List.foldl_cons, ih, Row_setArr]
    unfold lastRow
    simp only [List.map_cons, List.foldl_cons, Array.getElem?_toList]
    congr 1
    by_cases h : p.1 = k'
    · simp [h]
    · have h' : ¬ k' = p.1 := fun he => h he.symm
      simp [h, h']

/-- `membrane_current_names` as a function of the channels' (class, prefix) list -/
def namesOf (ts : List (String × String × Bool)) : List String :=
  ts.foldl (fun acc t => if acc.contains (cnameOf t.1 t.2.1) then acc else acc ++ [cnameOf t.1 t.2.1]) []

theorem currentNames_eq (m : SimModule) (j : Nat) :
    Model.Sim.currentNames m = namesOf (m.chans.map (fun c => (c.name, c.pfx, c.member.getD j false))) := by
  unfold Model.Sim.currentNames namesOf
  rw [List.foldl_map]
  rfl

/-- row `j` of the current arrays `_channel_currents` writes, as a function of the row's data -/
def curRowsFn (ts : List (String × String × Bool)) (inRange : Bool) (vj : Float) (st pr : String → Float) :
    List (String × Option Float) :=
  (namesOf ts).map (fun nm => (nm, ts.foldl (fun o t =>
    if t.2.2 && nm == cnameOf t.1 t.2.1 then o.map (· + i0Fn t.1 t.2.1 vj st pr) else o)
    (if inRange then some 0.0 else none)))

/-- (C12) **row `j` of the state after `_channel_currents`**: the current arrays receive, per name, `0.0` plus the currents of
the channels that contain row `j` and store their current under that name; every other state keeps its row -/
theorem Row_channelCurrents (m : SimModule) (u : State Float) (j : Nat) (k' : String) :
    Row (Model.Sim.channelCurrents m u).1 j k' =
      lastRow (curRowsFn (m.chans.map (fun c => (c.name, c.pfx, c.member.getD j false)))
        (decide (j < Model.Sim.ncompTotal m)) ((getArr u "v").getD j Model.Sim.nan)
        (fun k => (Row u j k).getD Model.Sim.nan) (Model.Sim.nodeParamAt m j)) k' (Row u j k') := by
  have h0 : (Model.Sim.channelCurrents m u).1 =
      (m.chans.foldl (ccOuter m u (getArr u "v")) (ccInit m)).2.2.foldl (fun u p => setArr u p.1 p.2.toList) u := rfl
  rw [h0, Row_fold_setArr_pairs]
  have h1 := curRow_outer m u (getArr u "v") j m.chans (ccInit m)
  unfold curRow at h1
  rw [h1]
  congr 1
  unfold curRowsFn ccInit
  rw [← currentNames_eq m j, List.map_map, List.map_map]
  apply List.map_congr_left
  intro nm _
  simp only [Function.comp, List.foldl_map, stateAt_eq_row]
  congr 1
  by_cases hj : j < Model.Sim.ncompTotal m <;> simp [hj]

/-- (C12) the state returned by one step (module without synapses, stimuli as the only externals), written out -/
theorem sim_step_state (m : SimModule) (solver : String) (dt : Float) (u : State Float) (exts : List (Ext Float))
    (hm : m.syns = []) (hk : ∀ e ∈ exts, e.key = "i") :
    Model.Sim.step m solver dt u exts =
      setArr (setArr (setArr (Model.Sim.channelCurrents m (Model.Sim.stepChannelsState m dt u)).1
        Model.Sim.keyGm (gmOf m dt u)) Model.Sim.keyKm (kmOf m dt u)) "v"
        ((List.range m.cells.length).flatMap (stepBlock m solver dt u exts)) := by
  have hk' : ∀ e ∈ exts.map (toLocal m), e.key = "i" := by
    intro e he
    obtain ⟨e', he', rfl⟩ := List.mem_map.mp he
    exact hk e' he'
  have hnov : ∀ e ∈ exts.map (toLocal m), e.key ≠ "v" := by
    intro e he h
    rw [hk' e he] at h
    exact absurd h (by decide)
  rw [sim_step_eq]
  show clampV (setArr (clampStates _ _) "v" _) _ = _
  rw [clampV_no_v _ _ hnov, clampStates_only_i _ _ hk', sim_solve_cellwise, sim_no_synapses m hm]
  have hne : Model.Sim.keyGm ≠ Model.Sim.keyKm := by decide
  rw [C08.getArr_setArr, getArr_setArr_ne _ _ _ _ hne, C08.getArr_setArr]
  rfl

theorem getElem?_of_getD (l : List Float) (r : Nat) (h : r < l.length) : l[r]? = some (l.toArray.getD r 0.0) := by
  simp [Array.getD_eq_getD_getElem?, h]

/-- the static data of a row: per channel (class, prefix, membership flag of the row) and the parameter row -/
def rowStatic (m : SimModule) (r : Nat) : List (String × String × Bool) × (String → Float) :=
  (m.chans.map (fun c => (c.name, c.pfx, c.member.getD r false)), Model.Sim.nodeParamAt m r)

theorem rowData_eq (m : SimModule) (u : State Float) (r : Nat) :
    rowData m u r = ((rowStatic m r).1, (rowStatic m r).2, Row u r) := rfl

/-- the static hypotheses of cell independence, for cell `k` of two modules -/
structure CellAgree (m m' : SimModule) (solver : String) (k : Nat) : Prop where
  syn : m.syns = []
  syn' : m'.syns = []
  sol : solverOkB m solver = true
  sol' : solverOkB m' solver = true
  off : offsetsOkB m = true
  off' : offsetsOkB m' = true
  hk : k < m.cells.length
  hk' : k < m'.cells.length
  cell : m.cells.getD k ([], []) = m'.cells.getD k ([], [])
  inb : (Model.Sim.cellOffsets m).getD k 0 + nTotal (m.cells.getD k ([], [])).2 ≤ Model.Sim.ncompTotal m
  inb' : (Model.Sim.cellOffsets m').getD k 0 + nTotal (m.cells.getD k ([], [])).2 ≤ Model.Sim.ncompTotal m'
  rows : ∀ i, i < nTotal (m.cells.getD k ([], [])).2 →
    m.comps.getD ((Model.Sim.cellOffsets m).getD k 0 + i) default =
      m'.comps.getD ((Model.Sim.cellOffsets m').getD k 0 + i) default ∧
    rowStatic m ((Model.Sim.cellOffsets m).getD k 0 + i) = rowStatic m' ((Model.Sim.cellOffsets m').getD k 0 + i)

/-- the stimuli of one step agree on the rows of cell `k` (and there are no other externals) -/
def StimAgree (m m' : SimModule) (k : Nat) (exts exts' : List (Ext Float)) : Prop :=
  (∀ e ∈ exts, e.key = "i") ∧ (∀ e ∈ exts', e.key = "i") ∧
  ∀ i, i < nTotal (m.cells.getD k ([], [])).2 →
    (exts.map (toLocal m)).map (fun e => (e.key, valsAt e ((Model.Sim.cellOffsets m).getD k 0 + i))) =
      (exts'.map (toLocal m')).map (fun e => (e.key, valsAt e ((Model.Sim.cellOffsets m').getD k 0 + i)))

/-- the rows of cell `k` of two states agree -/
def RowsAgree (m m' : SimModule) (k : Nat) (u u' : State Float) : Prop :=
  ∀ i, i < nTotal (m.cells.getD k ([], [])).2 →
    Row u ((Model.Sim.cellOffsets m).getD k 0 + i) = Row u' ((Model.Sim.cellOffsets m').getD k 0 + i)

/-- (C12) **after one step the full state rows of cell `k` depend on cell `k` only** (every state name: voltages, channel
states, stored currents, the stored linearisation) -/
theorem sim_step_rows_cell_independent (m m' : SimModule) (solver : String) (dt : Float) (k : Nat)
    (hA : CellAgree m m' solver k) (u u' : State Float) (exts exts' : List (Ext Float))
    (hS : StimAgree m m' k exts exts') (hR : RowsAgree m m' k u u') :
    RowsAgree m m' k (Model.Sim.step m solver dt u exts) (Model.Sim.step m' solver dt u' exts') := by
  obtain ⟨hke, hke', hst⟩ := hS
  have hblock : stepBlock m solver dt u exts k = stepBlock m' solver dt u' exts' k := by
    apply sim_step_cell_independent m m' solver dt u u' exts exts' k hA.cell hA.inb hA.inb'
    intro i hi
    refine ⟨(hA.rows i hi).1, ?_, hst i hi⟩
    rw [rowData_eq, rowData_eq, (hA.rows i hi).2, hR i hi]
  intro i hi
  have hr : (Model.Sim.cellOffsets m).getD k 0 + i < Model.Sim.ncompTotal m := by have := hA.inb; omega
  have hr' : (Model.Sim.cellOffsets m').getD k 0 + i < Model.Sim.ncompTotal m' := by have := hA.inb'; omega
  have hd : rowData m u ((Model.Sim.cellOffsets m).getD k 0 + i) =
      rowData m' u' ((Model.Sim.cellOffsets m').getD k 0 + i) := by
    rw [rowData_eq, rowData_eq, (hA.rows i hi).2, hR i hi]
  obtain ⟨hrow1, hg, hkm⟩ := rows_after_channels m m' dt u u' _ _ hr hr' hd
  have hstat := (hA.rows i hi).2
  have hch : m.chans.map (fun c => (c.name, c.pfx, c.member.getD ((Model.Sim.cellOffsets m).getD k 0 + i) false)) =
      m'.chans.map (fun c => (c.name, c.pfx, c.member.getD ((Model.Sim.cellOffsets m').getD k 0 + i) false)) :=
    congrArg Prod.fst hstat
  have hpr : Model.Sim.nodeParamAt m ((Model.Sim.cellOffsets m).getD k 0 + i) =
      Model.Sim.nodeParamAt m' ((Model.Sim.cellOffsets m').getD k 0 + i) := congrArg Prod.snd hstat
  funext k'
  rw [sim_step_state m solver dt u exts hA.syn hke, sim_step_state m' solver dt u' exts' hA.syn' hke']
  simp only [Row_setArr]
  by_cases hv : k' = "v"
  · rw [if_pos hv, if_pos hv]
    have h1 := v_row_block m solver dt u exts hA.syn hke hA.sol hA.off k hA.hk i hi
    have h2 := v_row_block m' solver dt u' exts' hA.syn' hke' hA.sol' hA.off' k hA.hk' i (hA.cell ▸ hi)
    rw [sim_step_v_blocks m solver dt u exts hA.syn hke] at h1
    rw [sim_step_v_blocks m' solver dt u' exts' hA.syn' hke'] at h2
    rw [h1, h2, hblock]
  · rw [if_neg hv, if_neg hv]
    by_cases hkm' : k' = Model.Sim.keyKm
    · rw [if_pos hkm', if_pos hkm', getElem?_of_getD _ _ (by unfold kmOf; simpa using hr),
        getElem?_of_getD _ _ (by unfold kmOf; simpa using hr'), hkm]
    · rw [if_neg hkm', if_neg hkm']
      by_cases hgm' : k' = Model.Sim.keyGm
      · rw [if_pos hgm', if_pos hgm', getElem?_of_getD _ _ (by unfold gmOf; simpa using hr),
          getElem?_of_getD _ _ (by unfold gmOf; simpa using hr'), hg]
      · rw [if_neg hgm', if_neg hgm', Row_channelCurrents, Row_channelCurrents, hch, hpr, hrow1, v_of_row, v_of_row,
          hrow1, decide_eq_true hr, decide_eq_true hr']

/-- (C12) **a run is independent cell by cell**: starting from states whose rows of cell `k` agree, after any number of steps
in which the stimuli delivered to cell `k`'s rows agree, the full state rows of cell `k` agree — whatever the other cells
are, do and receive -/
theorem sim_run_cell_independent (m m' : SimModule) (solver : String) (dt : Float) (k : Nat)
    (hA : CellAgree m m' solver k) (E E' : List (List (Ext Float))) (hE : List.Forall₂ (StimAgree m m' k) E E')
    (s s' : State Float) (hR : RowsAgree m m' k s s') :
    RowsAgree m m' k (E.foldl (Model.Sim.step m solver dt) s) (E'.foldl (Model.Sim.step m' solver dt) s') := by
  induction hE generalizing s s' with
  | nil => exact hR
  | cons hx _ ih =>
    rw [List.foldl_cons, List.foldl_cons]
    exact ih _ _ (sim_step_rows_cell_independent m m' solver dt k hA s s' _ _ hx hR)

/-- (C12) `get_all_states` (the initial currents) is row-wise as well (module without synapses) -/
theorem sim_init_rows_cell_independent (m m' : SimModule) (solver : String) (k : Nat) (hA : CellAgree m m' solver k)
    (u u' : State Float) (hR : RowsAgree m m' k u u') :
    RowsAgree m m' k (Model.Sim.initState m u) (Model.Sim.initState m' u') := by
  have hi : ∀ (m : SimModule) (u : State Float), m.syns = [] →
      Model.Sim.initState m u = (Model.Sim.channelCurrents m u).1 := by
    intro m u hm
    unfold Model.Sim.initState
    simp only [sim_no_synapses_currents m hm]
  rw [hi m u hA.syn, hi m' u' hA.syn']
  intro i hi'
  have hr : (Model.Sim.cellOffsets m).getD k 0 + i < Model.Sim.ncompTotal m := by have := hA.inb; omega
  have hr' : (Model.Sim.cellOffsets m').getD k 0 + i < Model.Sim.ncompTotal m' := by have := hA.inb'; omega
  have hstat := (hA.rows i hi').2
  have hch : m.chans.map (fun c => (c.name, c.pfx, c.member.getD ((Model.Sim.cellOffsets m).getD k 0 + i) false)) =
      m'.chans.map (fun c => (c.name, c.pfx, c.member.getD ((Model.Sim.cellOffsets m').getD k 0 + i) false)) :=
    congrArg Prod.fst hstat
  have hpr : Model.Sim.nodeParamAt m ((Model.Sim.cellOffsets m).getD k 0 + i) =
      Model.Sim.nodeParamAt m' ((Model.Sim.cellOffsets m').getD k 0 + i) := congrArg Prod.snd hstat
  funext k'
  rw [Row_channelCurrents, Row_channelCurrents, hch, hpr, v_of_row, v_of_row, hR i hi', decide_eq_true hr,
    decide_eq_true hr']

/-- (C12) the same for the `stateAfter` of `integrate`: the rows of cell `k` after `n` steps of two simulations agree -/
theorem sim_stateAfter_cell_independent (m m' : SimModule) (solver : String) (dt : Float) (k : Nat)
    (hA : CellAgree m m' solver k) (u0 u0' : State Float) (hR : RowsAgree m m' k u0 u0')
    (E E' : List (List (Ext Float))) (hE : List.Forall₂ (StimAgree m m' k) E E') (n : Nat) :
    RowsAgree m m' k (stateAfter m solver dt u0 E n) (stateAfter m' solver dt u0' E' n) := by
  unfold stateAfter
  have hT : List.Forall₂ (StimAgree m m' k) (E.take n) (E'.take n) := by
    induction hE generalizing n with
    | nil => simp
    | cons hx _ ih =>
      cases n with
      | zero => simp
      | succ n => simpa using ⟨hx, ih n⟩
  exact sim_run_cell_independent m m' solver dt k hA _ _ hT _ _
    (sim_init_rows_cell_independent m m' solver k hA u0 u0' hR)

/-- a recording of a compartment-indexed state reads the entry of its row when the row has that entry -/
theorem record_of_row (m : SimModule) (u : State Float) (key : String) (idx : Nat) (x : Float)
    (hloc : m.edgeStates.contains key = false) (hx : Row u idx key = some x) :
    Model.Sim.record m [(key, idx)] u = [x] := by
  unfold Row at hx
  have hlt := (List.getElem?_eq_some_iff.mp hx).1
  unfold Model.Sim.record Model.Sim.localInd
  simp only [List.map_cons, List.map_nil, hloc, Bool.false_eq_true, if_false]
  rw [Nat.min_eq_left (by omega), List.getD_eq_getElem?_getD, hx]
  rfl

/-- (C12) **a recording inside cell `k` reads the same value in both simulations** (compartment-indexed state whose array
covers the recorded row) -/
theorem sim_record_cell_independent (m m' : SimModule) (k : Nat) (u u' : State Float) (hR : RowsAgree m m' k u u')
    (key : String) (i : Nat) (hi : i < nTotal (m.cells.getD k ([], [])).2) (x : Float)
    (hloc : m.edgeStates.contains key = false) (hloc' : m'.edgeStates.contains key = false)
    (hx : Row u ((Model.Sim.cellOffsets m).getD k 0 + i) key = some x) :
    Model.Sim.record m [(key, (Model.Sim.cellOffsets m).getD k 0 + i)] u =
      Model.Sim.record m' [(key, (Model.Sim.cellOffsets m').getD k 0 + i)] u' := by
  have hx' : Row u' ((Model.Sim.cellOffsets m').getD k 0 + i) key = some x := by
    rw [← hR i hi]; exact hx
  rw [record_of_row m u key _ x hloc hx, record_of_row m' u' key _ x hloc' hx']

end rows

/-! ### non-vacuity -/

/-- the example module of `C08_Sim` has no synapses, so `sim_no_synapses`, `sim_step_v_blocks` apply to it; with itself as the
second module every hypothesis of `sim_step_cell_independent` holds by reflexivity -/
example : exM.syns = [] := rfl

example (solver : String) (dt : Float) (u : State Float) :
    getArr (Model.Sim.step exM solver dt u []) "v" =
      (List.range exM.cells.length).flatMap (stepBlock exM solver dt u []) :=
  sim_step_v_blocks exM solver dt u [] rfl (fun _ h => by simp at h)

/-- the structural hypotheses of the run theorems hold for the example module (with itself as the second module) -/
example : solverOkB exM "bwd_euler" = true ∧ solverOkB exM "fwd_euler" = true ∧ offsetsOkB exM = true := by decide

example : CellAgree exM exM "bwd_euler" 0 :=
  { syn := rfl, syn' := rfl, sol := by decide, sol' := by decide, off := by decide, off' := by decide,
    hk := by decide, hk' := by decide, cell := rfl, inb := by decide, inb' := by decide,
    rows := fun _ _ => ⟨rfl, rfl⟩ }

end JaxleyVerif.Props.Sim
