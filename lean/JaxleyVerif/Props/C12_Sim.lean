/-
C12 at the whole-simulation model `Model.Sim`: uncoupled parts simulate independently.
Purely structural: which rows of which tables the rows of the new state and of the linearisation are functions of.
-/
import JaxleyVerif.Model.Sim
import JaxleyVerif.Props.C08_Sim
import JaxleyVerif.Props.C09_Sim

namespace JaxleyVerif.Props.Sim
open JaxleyVerif JaxleyVerif.Model JaxleyVerif.Model.Step

/-! ### rows of a state -/

/-- row `i` of the state: for every state name, the entry at index `i` (if the array is that long) -/
def Row (u : State Float) (i : Nat) : String → Option Float := fun k => (getArr u k)[i]?

theorem stateAt_eq_row (u : State Float) (i : Nat) :
    Model.Sim.stateAt u i = fun k => (Row u i k).getD Model.Sim.nan := by
  funext k
  unfold Model.Sim.stateAt Row
  rw [List.getD_eq_getElem?_getD]

theorem setEntry_row (u : State Float) (k : String) (i : Nat) (x : Float) (j : Nat) (k' : String) :
    Row (Model.Sim.setEntry u k i x) j k' =
      if j = i ∧ k' = k then (Row u i k).map (fun _ => x) else Row u j k' := by
  unfold Row Model.Sim.setEntry
  by_cases hk : k' = k
  · subst hk
    rw [C08.getArr_setArr, List.getElem?_set]
    by_cases hj : j = i
    · subst hj
      by_cases hl : j < (getArr u k').length <;> simp [hl]
    · have : ¬ i = j := fun h => hj h.symm
      simp [hj, this]
  · rw [getArr_setArr_ne _ _ _ _ hk]
    simp [hk]

/-- the effect of writing the (name, value) pairs `kv` into one row: only existing entries are overwritten -/
def rowApplyKV (row : String → Option Float) (kv : List (String × Float)) : String → Option Float :=
  kv.foldl (fun r kx => fun k' => if k' = kx.1 then (r kx.1).map (fun _ => kx.2) else r k') row

theorem Row_applyKV (i j : Nat) : ∀ (kv : List (String × Float)) (u : State Float),
    Row (kv.foldl (fun u kx => Model.Sim.setEntry u kx.1 i kx.2) u) j =
      if j = i then rowApplyKV (Row u i) kv else Row u j := by
  intro kv
  induction kv with
  | nil => intro u; by_cases h : j = i <;> simp [h, rowApplyKV]
  | cons kx t ih =>
    intro u
    rw [List.foldl_cons, ih]
    by_cases h : j = i
    · subst h
      simp only [if_true]
      show rowApplyKV _ t = rowApplyKV (fun k' => if k' = kx.1 then (Row u j kx.1).map (fun _ => kx.2) else Row u j k') t
      congr 1
      funext k'
      rw [setEntry_row]
      by_cases hk : k' = kx.1 <;> simp [hk]
    · simp only [h, if_false]
      funext k'
      rw [setEntry_row]
      simp [h]

theorem Row_fold_pairs (j : Nat) : ∀ (L : List (Nat × List (String × Float))) (u : State Float),
    Row (L.foldl (fun u ikv => ikv.2.foldl (fun u kx => Model.Sim.setEntry u kx.1 ikv.1 kx.2) u) u) j =
      (L.filter (fun ikv => ikv.1 == j)).foldl (fun r ikv => rowApplyKV r ikv.2) (Row u j) := by
  intro L
  induction L with
  | nil => intro u; rfl
  | cons a t ih =>
    intro u
    rw [List.foldl_cons, ih, Row_applyKV, List.filter_cons]
    by_cases h : a.1 = j
    · subst h
      simp
    · have h' : ¬ j = a.1 := fun he => h he.symm
      simp [h, h']

theorem range_filter_eq (n j : Nat) : (List.range n).filter (· == j) = if j < n then [j] else [] := by
  induction n with
  | zero => simp
  | succ n ih =>
    rw [List.range_succ, List.filter_append, ih]
    by_cases h : j < n
    · have : (n == j) = false := by simp; omega
      simp [h, this, Nat.lt_succ_of_lt h]
    · by_cases h2 : j = n
      · subst h2; simp
      · have : (n == j) = false := by simp; omega
        have h3 : ¬ j < n + 1 := by omega
        simp [h, this, h3]

theorem members_filter (c : Model.Sim.Chan) (j : Nat) :
    (Model.Sim.members c).filter (· == j) = if c.member.getD j false then [j] else [] := by
  unfold Model.Sim.members
  rw [List.filter_filter]
  have : (List.range c.member.size).filter (fun a => (a == j) && c.member.getD a false) =
      ((List.range c.member.size).filter (· == j)).filter (fun a => c.member.getD a false) := by
    rw [List.filter_filter]
    apply List.filter_congr
    intro a _
    rw [Bool.and_comm]
  rw [this, range_filter_eq]
  by_cases hj : j < c.member.size
  · simp only [hj, if_true, List.filter_cons, List.filter_nil]
  · have : c.member.getD j false = false := by
      simp [Array.getD_eq_getD_getElem?, Array.getElem?_eq_none (Nat.le_of_not_lt hj)]
    simp [hj, this]

/-! ### 4. the channel state update is row-wise -/

/-- the step of one channel (one vectorised call: every member row reads the state as it is before this channel) -/
def chanStep (m : SimModule) (dt : Float) (v : List Float) (u : State Float) (c : Model.Sim.Chan) : State Float :=
  ((Model.Sim.members c).map (fun i =>
    (i, Model.Sim.kernelKV (c.name ++ ".update_states") c.pfx #[dt, v.getD i Model.Sim.nan] (Model.Sim.stateAt u i)
      (Model.Sim.nodeParamAt m i)))).foldl
    (fun u ikv => ikv.2.foldl (fun u kx => Model.Sim.setEntry u kx.1 ikv.1 kx.2) u) u

theorem stepChannelsState_eq (m : SimModule) (dt : Float) (u : State Float) :
    Model.Sim.stepChannelsState m dt u = m.chans.foldl (chanStep m dt (getArr u "v")) u := rfl

/-- what one channel does to one row, as a function of the row, the channel's class and prefix, its membership flag for the
row, `dt`, the row's voltage and the row's parameters -/
def chanRowFn (name pfx : String) (flag : Bool) (dt vj : Float) (pr : String → Float)
    (row : String → Option Float) : String → Option Float :=
  if flag then
    rowApplyKV row (Model.Sim.kernelKV (name ++ ".update_states") pfx #[dt, vj]
      (fun k => (row k).getD Model.Sim.nan) pr)
  else row

theorem Row_chanStep (m : SimModule) (dt : Float) (v : List Float) (u : State Float) (c : Model.Sim.Chan) (j : Nat) :
    Row (chanStep m dt v u c) j =
      chanRowFn c.name c.pfx (c.member.getD j false) dt (v.getD j Model.Sim.nan) (Model.Sim.nodeParamAt m j) (Row u j) := by
  unfold chanStep chanRowFn
  rw [Row_fold_pairs, List.filter_map]
  have : (Model.Sim.members c).filter ((fun ikv : Nat × List (String × Float) => ikv.1 == j) ∘ fun i =>
      (i, Model.Sim.kernelKV (c.name ++ ".update_states") c.pfx #[dt, v.getD i Model.Sim.nan] (Model.Sim.stateAt u i)
        (Model.Sim.nodeParamAt m i))) = (Model.Sim.members c).filter (· == j) := rfl
  rw [this, members_filter]
  cases c.member.getD j false
  · rfl
  · simp only [if_true, List.map_cons, List.map_nil, List.foldl_cons, List.foldl_nil, stateAt_eq_row]

/-- (C12) **row `j` of the state after the channel state update** is obtained from row `j` of the old state by the channels'
row functions in `module.channels` order; it involves the channels' classes, prefixes and membership flags FOR ROW `j`, the
old voltage of row `j` and the parameter row `j` — no other row of any table -/
theorem Row_stepChannelsState (m : SimModule) (dt : Float) (u : State Float) (j : Nat) :
    Row (Model.Sim.stepChannelsState m dt u) j =
      (m.chans.map (fun c => (c.name, c.pfx, c.member.getD j false))).foldl
        (fun r t => chanRowFn t.1 t.2.1 t.2.2 dt ((getArr u "v").getD j Model.Sim.nan) (Model.Sim.nodeParamAt m j) r)
        (Row u j) := by
  rw [stepChannelsState_eq, List.foldl_map]
  generalize getArr u "v" = v
  suffices h : ∀ (cs : List Model.Sim.Chan) (w : State Float), Row (cs.foldl (chanStep m dt v) w) j =
      cs.foldl (fun r c => chanRowFn c.name c.pfx (c.member.getD j false) dt (v.getD j Model.Sim.nan)
        (Model.Sim.nodeParamAt m j) r) (Row w j) from h m.chans u
  intro cs
  induction cs with
  | nil => intro w; rfl
  | cons c t ih =>
    intro w
    rw [List.foldl_cons, List.foldl_cons, ih, Row_chanStep]

/-- (C12) **the channel state update is row-wise**: two modules / states with the same channel list (classes, prefixes, in
order) that agree on the membership flags of row `j`, on the parameter row `j` and on row `j` of the state (which contains
`v[j]`) have the same row `j` afterwards -/
theorem sim_mech_rowwise_states (m m' : SimModule) (dt : Float) (u u' : State Float) (j : Nat)
    (hch : m.chans.map (fun c => (c.name, c.pfx, c.member.getD j false)) =
      m'.chans.map (fun c => (c.name, c.pfx, c.member.getD j false)))
    (hpr : Model.Sim.nodeParamAt m j = Model.Sim.nodeParamAt m' j) (hrow : Row u j = Row u' j) :
    Row (Model.Sim.stepChannelsState m dt u) j = Row (Model.Sim.stepChannelsState m' dt u') j := by
  have hv : (getArr u "v").getD j Model.Sim.nan = (getArr u' "v").getD j Model.Sim.nan := by
    have := congrFun hrow "v"
    unfold Row at this
    rw [List.getD_eq_getElem?_getD, List.getD_eq_getElem?_getD, this]
  rw [Row_stepChannelsState, Row_stepChannelsState, hch, hpr, hrow, hv]

/-! ### 4'. the channel linearisation is row-wise -/

/-- the secant linearisation `(voltage term, constant term)` of one channel in one row, as a function of the channel's class
and prefix, the row's voltage, state row and parameter row -/
def chanTermFn (name pfx : String) (vi : Float) (st pr : String → Float) : Float × Float :=
  let i0 := Model.Sim.kernel1 (name ++ ".compute_current") pfx #[vi] st pr
  let i1 := Model.Sim.kernel1 (name ++ ".compute_current") pfx #[vi + Model.Sim.diff] st pr
  let vt := (i1 - i0) / Model.Sim.diff
  (vt, i0 - vt * vi)

abbrev CCAcc := Array Float × Array Float × List (String × Array Float)

/-- the accumulation step of `_channel_currents` for one member row of one channel -/
def ccInner (m : SimModule) (u : State Float) (v : List Float) (c : Model.Sim.Chan) (cname : String) (acc : CCAcc)
    (i : Nat) : CCAcc :=
  let vi := v.getD i Model.Sim.nan
  let st := Model.Sim.stateAt u i
  let pr := Model.Sim.nodeParamAt m i
  let i0 := Model.Sim.kernel1 (c.name ++ ".compute_current") c.pfx #[vi] st pr
  let i1 := Model.Sim.kernel1 (c.name ++ ".compute_current") c.pfx #[vi + Model.Sim.diff] st pr
  let vt := (i1 - i0) / Model.Sim.diff
  let ct := i0 - vt * vi
  (acc.1.modify i (· + vt * 1000.0),
   acc.2.1.modify i (· + (-ct) * 1000.0),
   acc.2.2.map (fun p => if p.1 == cname then (p.1, p.2.modify i (· + i0)) else p))

def ccOuter (m : SimModule) (u : State Float) (v : List Float) (acc : CCAcc) (c : Model.Sim.Chan) : CCAcc :=
  (Model.Sim.members c).foldl
    (ccInner m u v c ((Gen.dispatchStr (c.name ++ ".current_name") c.pfx).getD ("i_" ++ c.pfx))) acc

def ccInit (m : SimModule) : CCAcc :=
  (Array.replicate (Model.Sim.ncompTotal m) 0.0, Array.replicate (Model.Sim.ncompTotal m) 0.0,
    (Model.Sim.currentNames m).map (fun k => (k, Array.replicate (Model.Sim.ncompTotal m) 0.0)))

theorem channelCurrents_terms (m : SimModule) (u : State Float) :
    (Model.Sim.channelCurrents m u).2.1 = (m.chans.foldl (ccOuter m u (getArr u "v")) (ccInit m)).1 ∧
    (Model.Sim.channelCurrents m u).2.2 = (m.chans.foldl (ccOuter m u (getArr u "v")) (ccInit m)).2.1 := ⟨rfl, rfl⟩

/-- the pair (voltage-term entry, constant-term entry) of row `j` in an accumulator -/
def accRow (acc : CCAcc) (j : Nat) : Option Float × Option Float := (acc.1[j]?, acc.2.1[j]?)

/-- what one channel adds to row `j` of the two term arrays -/
def termRowFn (name pfx : String) (flag : Bool) (vj : Float) (st pr : String → Float)
    (p : Option Float × Option Float) : Option Float × Option Float :=
  if flag then
    (p.1.map (· + (chanTermFn name pfx vj st pr).1 * 1000.0), p.2.map (· + (-(chanTermFn name pfx vj st pr).2) * 1000.0))
  else p

theorem accRow_inner (m : SimModule) (u : State Float) (v : List Float) (c : Model.Sim.Chan) (cname : String) (j : Nat) :
    ∀ (L : List Nat) (acc : CCAcc), accRow (L.foldl (ccInner m u v c cname) acc) j =
      (L.filter (· == j)).foldl (fun p _ => termRowFn c.name c.pfx true (v.getD j Model.Sim.nan)
        (Model.Sim.stateAt u j) (Model.Sim.nodeParamAt m j) p) (accRow acc j) := by
  intro L
  induction L with
  | nil => intro acc; rfl
  | cons i t ih =>
    intro acc
    rw [List.foldl_cons, ih, List.filter_cons]
    by_cases h : i = j
    · subst h
      simp only [beq_self_eq_true, if_true, List.foldl_cons]
      congr 1
      unfold accRow ccInner termRowFn chanTermFn
      simp only [Array.getElem?_modify, if_true]
    · have h' : (i == j) = false := by simpa using h
      simp only [h', Bool.false_eq_true, if_false]
      congr 1
      unfold accRow ccInner
      simp only [Array.getElem?_modify, h, if_false]

theorem accRow_outer (m : SimModule) (u : State Float) (v : List Float) (j : Nat) :
    ∀ (cs : List Model.Sim.Chan) (acc : CCAcc), accRow (cs.foldl (ccOuter m u v) acc) j =
      cs.foldl (fun p c => termRowFn c.name c.pfx (c.member.getD j false) (v.getD j Model.Sim.nan)
        (Model.Sim.stateAt u j) (Model.Sim.nodeParamAt m j) p) (accRow acc j) := by
  intro cs
  induction cs with
  | nil => intro acc; rfl
  | cons c t ih =>
    intro acc
    rw [List.foldl_cons, List.foldl_cons, ih]
    congr 1
    unfold ccOuter
    rw [accRow_inner, members_filter]
    cases c.member.getD j false
    · rfl
    · rfl

/-- (C12) **row `j` of the channel linearisation** (`voltage_terms[j]`, `constant_terms[j]` of `_channel_currents`): starting
from `0.0`, every channel that contains row `j` adds its secant terms, computed from the row's voltage, state row and
parameter row — no other row of any table is read -/
theorem termRow_channelCurrents (m : SimModule) (u : State Float) (j : Nat) :
    ((Model.Sim.channelCurrents m u).2.1[j]?, (Model.Sim.channelCurrents m u).2.2[j]?) =
      (m.chans.map (fun c => (c.name, c.pfx, c.member.getD j false))).foldl
        (fun p t => termRowFn t.1 t.2.1 t.2.2 ((getArr u "v").getD j Model.Sim.nan)
          (fun k => (Row u j k).getD Model.Sim.nan) (Model.Sim.nodeParamAt m j) p)
        (if j < Model.Sim.ncompTotal m then (some 0.0, some 0.0) else (none, none)) := by
  obtain ⟨h1, h2⟩ := channelCurrents_terms m u
  rw [h1, h2, List.foldl_map]
  have := accRow_outer m u (getArr u "v") j m.chans (ccInit m)
  unfold accRow at this
  rw [this, stateAt_eq_row]
  congr 1
  unfold ccInit
  by_cases hj : j < Model.Sim.ncompTotal m <;> simp [hj]

/-- (C12) **the channel linearisation is row-wise**: same channel list (classes, prefixes, in order), same membership flags
of row `j`, same parameter row `j`, same state row `j` (which contains `v[j]`) ⇒ same `voltage_terms[j]`, `constant_terms[j]` -/
theorem sim_mech_rowwise_terms (m m' : SimModule) (u u' : State Float) (j : Nat)
    (hn : (j < Model.Sim.ncompTotal m) ↔ (j < Model.Sim.ncompTotal m'))
    (hch : m.chans.map (fun c => (c.name, c.pfx, c.member.getD j false)) =
      m'.chans.map (fun c => (c.name, c.pfx, c.member.getD j false)))
    (hpr : Model.Sim.nodeParamAt m j = Model.Sim.nodeParamAt m' j) (hrow : Row u j = Row u' j) :
    ((Model.Sim.channelCurrents m u).2.1[j]?, (Model.Sim.channelCurrents m u).2.2[j]?) =
      ((Model.Sim.channelCurrents m' u').2.1[j]?, (Model.Sim.channelCurrents m' u').2.2[j]?) := by
  have hv : (getArr u "v").getD j Model.Sim.nan = (getArr u' "v").getD j Model.Sim.nan := by
    have := congrFun hrow "v"
    unfold Row at this
    rw [List.getD_eq_getElem?_getD, List.getD_eq_getElem?_getD, this]
  rw [termRow_channelCurrents, termRow_channelCurrents, hch, hpr, hrow, hv]
  by_cases h : j < Model.Sim.ncompTotal m
  · rw [if_pos h, if_pos (hn.mp h)]
  · rw [if_neg h, if_neg (fun h' => h (hn.mpr h'))]

/-! ### 5. one step, cell by cell (module without synapses, stimuli as the only externals) -/

section step
open JaxleyVerif.Model.Cable

theorem clampStates_only_i {α : Type} : ∀ (exts : List (Ext α)) (u : State α), (∀ e ∈ exts, e.key = "i") →
    clampStates u exts = u := by
  intro exts
  induction exts with
  | nil => intro u _; rfl
  | cons e t ih =>
    intro u h
    have he : (e.key == "i" || e.key == "v") = true := by simp [h e (by simp)]
    show clampStates (if (e.key == "i" || e.key == "v") = true then u else _) t = u
    rw [if_pos he]
    exact ih u (fun e' he' => h e' (List.mem_cons_of_mem _ he'))

/-- the linearisation `gm` the mechanism step stores for the solver when there are no synapses -/
def gmOf (m : SimModule) (dt : Float) (u : State Float) : List Float :=
  (List.range (Model.Sim.ncompTotal m)).map (fun i =>
    (Model.Sim.channelCurrents m (Model.Sim.stepChannelsState m dt u)).2.1.getD i 0.0 + (0 : Float))
def kmOf (m : SimModule) (dt : Float) (u : State Float) : List Float :=
  (List.range (Model.Sim.ncompTotal m)).map (fun i =>
    (Model.Sim.channelCurrents m (Model.Sim.stepChannelsState m dt u)).2.2.getD i 0.0 + (0 : Float))

/-- the new voltages of cell `k` : the solve of that cell on its slices of the old voltages, of the channel linearisation
and of the stimulus -/
def stepBlock (m : SimModule) (solver : String) (dt : Float) (u : State Float) (exts : List (Ext Float)) (k : Nat) :
    List Float :=
  solveCell solver dt (Model.Sim.cellIn m k (getArr u "v").toArray (gmOf m dt u).toArray (kmOf m dt u).toArray
    (Model.Sim.iExt m (exts.map (toLocal m))).toArray)

/-- (C12) **the voltages after one step are the concatenation of the cells' blocks** (module without synapses, stimuli as the
only externals) -/
theorem sim_step_v_blocks (m : SimModule) (solver : String) (dt : Float) (u : State Float) (exts : List (Ext Float))
    (hm : m.syns = []) (hk : ∀ e ∈ exts, e.key = "i") :
    getArr (Model.Sim.step m solver dt u exts) "v" =
      (List.range m.cells.length).flatMap (stepBlock m solver dt u exts) := by
  have hk' : ∀ e ∈ exts.map (toLocal m), e.key = "i" := by
    intro e he
    obtain ⟨e', he', rfl⟩ := List.mem_map.mp he
    exact hk e' he'
  have hnov : ∀ e ∈ exts.map (toLocal m), e.key ≠ "v" := by
    intro e he h
    rw [hk' e he] at h
    exact absurd h (by decide)
  rw [sim_step_eq]
  show getArr (clampV (setArr (clampStates _ _) "v" _) _) "v" = _
  rw [clampV_no_v _ _ hnov, C08.getArr_setArr, clampStates_only_i _ _ hk', sim_solve_cellwise, sim_no_synapses m hm]
  have hne : Model.Sim.keyGm ≠ Model.Sim.keyKm := by decide
  rw [C08.getArr_setArr, getArr_setArr_ne _ _ _ _ hne, C08.getArr_setArr]
  rfl

/-- (C12) **block `k` depends on cell `k`'s slices only** (inputs of the solve): if the two modules agree on cell `k`'s entry
of `cells`, on its slice of `comps`, and the old voltages, the channel linearisation and the stimulus agree on the rows of
cell `k`, the new voltages of cell `k` agree -/
theorem sim_step_block_congr (m m' : SimModule) (solver : String) (dt : Float) (u u' : State Float)
    (exts exts' : List (Ext Float)) (k : Nat)
    (hc : m.cells.getD k ([], []) = m'.cells.getD k ([], []))
    (hcomps : ∀ i, i < nTotal (m.cells.getD k ([], [])).2 →
      m.comps.getD ((Model.Sim.cellOffsets m).getD k 0 + i) default =
        m'.comps.getD ((Model.Sim.cellOffsets m').getD k 0 + i) default)
    (hsl : ∀ i, i < nTotal (m.cells.getD k ([], [])).2 →
      (getArr u "v").toArray.getD ((Model.Sim.cellOffsets m).getD k 0 + i) 0.0 =
        (getArr u' "v").toArray.getD ((Model.Sim.cellOffsets m').getD k 0 + i) 0.0 ∧
      (gmOf m dt u).toArray.getD ((Model.Sim.cellOffsets m).getD k 0 + i) 0.0 =
        (gmOf m' dt u').toArray.getD ((Model.Sim.cellOffsets m').getD k 0 + i) 0.0 ∧
      (kmOf m dt u).toArray.getD ((Model.Sim.cellOffsets m).getD k 0 + i) 0.0 =
        (kmOf m' dt u').toArray.getD ((Model.Sim.cellOffsets m').getD k 0 + i) 0.0 ∧
      (Model.Sim.iExt m (exts.map (toLocal m))).toArray.getD ((Model.Sim.cellOffsets m).getD k 0 + i) 0.0 =
        (Model.Sim.iExt m' (exts'.map (toLocal m'))).toArray.getD ((Model.Sim.cellOffsets m').getD k 0 + i) 0.0) :
    stepBlock m solver dt u exts k = stepBlock m' solver dt u' exts' k :=
  sim_cell_block_independent m m' solver dt k _ _ _ _ _ _ _ _ hc hcomps hsl

/-! #### the rows of the inputs of the solve -/

/-- the data of row `r` the channel part of the mechanism step reads: per channel (class, prefix, membership flag of the row),
the parameter row, the state row -/
def rowData (m : SimModule) (u : State Float) (r : Nat) :
    List (String × String × Bool) × (String → Float) × (String → Option Float) :=
  (m.chans.map (fun c => (c.name, c.pfx, c.member.getD r false)), Model.Sim.nodeParamAt m r, Row u r)

theorem v_of_row (u : State Float) (r : Nat) (d : Float) : (getArr u "v").getD r d = (Row u r "v").getD d := by
  unfold Row
  rw [List.getD_eq_getElem?_getD]

/-- (C12) rows with the same data have the same row after the channel state update and the same channel linearisation -/
theorem rows_after_channels (m m' : SimModule) (dt : Float) (u u' : State Float) (r r' : Nat)
    (hr : r < Model.Sim.ncompTotal m) (hr' : r' < Model.Sim.ncompTotal m') (hd : rowData m u r = rowData m' u' r') :
    Row (Model.Sim.stepChannelsState m dt u) r = Row (Model.Sim.stepChannelsState m' dt u') r' ∧
    (gmOf m dt u).toArray.getD r 0.0 = (gmOf m' dt u').toArray.getD r' 0.0 ∧
    (kmOf m dt u).toArray.getD r 0.0 = (kmOf m' dt u').toArray.getD r' 0.0 := by
  unfold rowData at hd
  obtain ⟨hch, hpr, hrow⟩ : m.chans.map (fun c => (c.name, c.pfx, c.member.getD r false)) =
      m'.chans.map (fun c => (c.name, c.pfx, c.member.getD r' false)) ∧
      Model.Sim.nodeParamAt m r = Model.Sim.nodeParamAt m' r' ∧ Row u r = Row u' r' := by
    have h1 := congrArg Prod.fst hd
    have h2 := congrArg (fun t => t.2.1) hd
    have h3 := congrArg (fun t => t.2.2) hd
    exact ⟨h1, h2, h3⟩
  have hrow1 : Row (Model.Sim.stepChannelsState m dt u) r = Row (Model.Sim.stepChannelsState m' dt u') r' := by
    rw [Row_stepChannelsState, Row_stepChannelsState, hch, hpr, hrow, v_of_row, v_of_row, hrow]
  have hterms := termRow_channelCurrents m (Model.Sim.stepChannelsState m dt u) r
  have hterms' := termRow_channelCurrents m' (Model.Sim.stepChannelsState m' dt u') r'
  rw [if_pos hr, hch, hpr, hrow1, v_of_row, hrow1] at hterms
  rw [if_pos hr', v_of_row] at hterms'
  have heq := hterms.trans hterms'.symm
  have e1 := congrArg Prod.fst heq
  have e2 := congrArg Prod.snd heq
  simp only at e1 e2
  refine ⟨hrow1, ?_, ?_⟩
  · unfold gmOf
    simp [Array.getD_eq_getD_getElem?, hr, hr', e1]
  · unfold kmOf
    simp [Array.getD_eq_getD_getElem?, hr, hr', e2]

/-- the stimulus samples of one external that hit row `r`, in order -/
def valsAt (e : Ext Float) (r : Nat) : List Float := ((e.inds.zip e.vals).filter (fun iv => iv.1 == r)).map (·.2)

theorem scatterAdd_row (r : Nat) : ∀ (L : List (Nat × Float)) (acc : List Float),
    (L.foldl (fun acc iv => if iv.1 < acc.length then acc.set iv.1 (acc.getD iv.1 0 + iv.2) else acc) acc)[r]? =
      ((L.filter (fun iv => iv.1 == r)).map (·.2)).foldl (fun a x => a.map (· + x)) acc[r]? := by
  intro L
  induction L with
  | nil => intro acc; rfl
  | cons iv t ih =>
    intro acc
    rw [List.foldl_cons, ih, List.filter_cons]
    by_cases h : iv.1 = r
    · have hb : (iv.1 == r) = true := by simpa using h
      rw [hb]
      simp only [if_true, List.map_cons, List.foldl_cons]
      congr 1
      by_cases hl : iv.1 < acc.length
      · rw [if_pos hl, List.getElem?_set, if_pos h, if_pos hl, ← h, List.getElem?_eq_getElem hl,
          List.getD_eq_getElem?_getD, List.getElem?_eq_getElem hl]
        rfl
      · rw [if_neg hl, ← h, List.getElem?_eq_none (Nat.le_of_not_lt hl)]
        rfl
    · have hb : (iv.1 == r) = false := by simpa using h
      rw [hb]
      simp only [Bool.false_eq_true, if_false]
      congr 1
      by_cases hl : iv.1 < acc.length
      · rw [if_pos hl, List.getElem?_set, if_neg h]
      · rw [if_neg hl]

/-- the stimulus of row `r` as a function of the samples that hit row `r` -/
def stimRow (E : List (String × List Float)) : Float :=
  E.foldl (fun a e => if e.1 == "i" then a + ((e.2.foldl (fun a x => a.map (· + x)) (some (0 : Float))).getD 0.0) else a) 0.0

/-- (C12) **the stimulus of row `r` depends on the samples addressed to row `r` only** -/
theorem iExt_row (m : SimModule) (r : Nat) (hr : r < Model.Sim.ncompTotal m) (E : List (Ext Float)) :
    (Model.Sim.iExt m E).toArray.getD r 0.0 = stimRow (E.map (fun e => (e.key, valsAt e r))) := by
  unfold Model.Sim.iExt stimRow
  rw [List.foldl_map]
  suffices h : ∀ (E : List (Ext Float)) (acc : List Float) (a : Float), acc.getD r 0.0 = a →
      (E.foldl (fun acc e => if e.key == "i" then
          (List.range (Model.Sim.ncompTotal m)).map (fun i => acc.getD i 0.0 +
            (scatterAdd (Model.Sim.ncompTotal m) e.inds e.vals).getD i 0.0) else acc) acc).getD r 0.0 =
        E.foldl (fun a e => if (e.key == "i") = true then
          a + (((valsAt e r).foldl (fun a x => a.map (· + x)) (some (0 : Float))).getD 0.0) else a) a by
    simp only [Array.getD_eq_getD_getElem?, List.getElem?_toArray]
    rw [← List.getD_eq_getElem?_getD]
    exact h E _ _ (by simp [List.getD_eq_getElem?_getD, hr])
  intro E
  induction E with
  | nil => intro acc a h; exact h
  | cons e t ih =>
    intro acc a h
    rw [List.foldl_cons, List.foldl_cons]
    apply ih
    cases hk : (e.key == "i")
    · simpa using h
    · simp only [if_true]
      have hs : (scatterAdd (Model.Sim.ncompTotal m) e.inds e.vals).getD r 0.0 =
          ((valsAt e r).foldl (fun a x => a.map (· + x)) (some (0 : Float))).getD 0.0 := by
        unfold scatterAdd valsAt
        rw [List.getD_eq_getElem?_getD, scatterAdd_row]
        simp [hr]
      simp [List.getD_eq_getElem?_getD, hr, ← hs, ← h]

/-- (C12) **one step is independent cell by cell** (module without synapses, stimuli as the only externals — for such a step
`sim_step_v_blocks` shows that `stepBlock … k` is the block of new voltages of cell `k`): if two modules agree on cell `k`'s
entry of `cells` and, row by row over cell `k` (row `i` of the cell is global row `cellOffsets … k + i` in each module), on
`comps`, on the channels' classes, prefixes and membership flags, on the parameter row, on the state row (all state arrays,
including `v`) and on the stimulus samples addressed to the row, then the new voltages of cell `k` agree — whatever the
other cells are and do -/
theorem sim_step_cell_independent (m m' : SimModule) (solver : String) (dt : Float) (u u' : State Float)
    (exts exts' : List (Ext Float)) (k : Nat)
    (hc : m.cells.getD k ([], []) = m'.cells.getD k ([], []))
    (hin : (Model.Sim.cellOffsets m).getD k 0 + nTotal (m.cells.getD k ([], [])).2 ≤ Model.Sim.ncompTotal m)
    (hin' : (Model.Sim.cellOffsets m').getD k 0 + nTotal (m.cells.getD k ([], [])).2 ≤ Model.Sim.ncompTotal m')
    (hrows : ∀ i, i < nTotal (m.cells.getD k ([], [])).2 →
      m.comps.getD ((Model.Sim.cellOffsets m).getD k 0 + i) default =
        m'.comps.getD ((Model.Sim.cellOffsets m').getD k 0 + i) default ∧
      rowData m u ((Model.Sim.cellOffsets m).getD k 0 + i) = rowData m' u' ((Model.Sim.cellOffsets m').getD k 0 + i) ∧
      (exts.map (toLocal m)).map (fun e => (e.key, valsAt e ((Model.Sim.cellOffsets m).getD k 0 + i))) =
        (exts'.map (toLocal m')).map (fun e => (e.key, valsAt e ((Model.Sim.cellOffsets m').getD k 0 + i)))) :
    stepBlock m solver dt u exts k = stepBlock m' solver dt u' exts' k := by
  apply sim_step_block_congr m m' solver dt u u' exts exts' k hc (fun i hi => (hrows i hi).1)
  intro i hi
  obtain ⟨-, hd, he⟩ := hrows i hi
  have hr : (Model.Sim.cellOffsets m).getD k 0 + i < Model.Sim.ncompTotal m := by omega
  have hr' : (Model.Sim.cellOffsets m').getD k 0 + i < Model.Sim.ncompTotal m' := by omega
  obtain ⟨-, hg, hkm⟩ := rows_after_channels m m' dt u u' _ _ hr hr' hd
  refine ⟨?_, hg, hkm, ?_⟩
  · have h3 : Row u ((Model.Sim.cellOffsets m).getD k 0 + i) = Row u' ((Model.Sim.cellOffsets m').getD k 0 + i) :=
      congrArg (fun t => t.2.2) hd
    simp only [Array.getD_eq_getD_getElem?, List.getElem?_toArray]
    rw [← List.getD_eq_getElem?_getD, ← List.getD_eq_getElem?_getD, v_of_row, v_of_row, h3]
  · rw [iExt_row m _ hr, iExt_row m' _ hr', he]

end step

/-! ### non-vacuity -/

/-- the example module of `C08_Sim` has no synapses, so `sim_no_synapses`, `sim_step_v_blocks` apply to it; with itself as the
second module every hypothesis of `sim_step_cell_independent` holds by reflexivity -/
example : exM.syns = [] := rfl

example (solver : String) (dt : Float) (u : State Float) :
    getArr (Model.Sim.step exM solver dt u []) "v" =
      (List.range exM.cells.length).flatMap (stepBlock exM solver dt u []) :=
  sim_step_v_blocks exM solver dt u [] rfl (fun _ h => by simp at h)

end JaxleyVerif.Props.Sim
