/-
C09 at the whole-simulation model `Model.Sim`: synaptic current flows from the listed pre- to the listed post-compartment.
Purely structural (no fact about `Float` arithmetic is used): which data the synaptic terms and states are functions of.
-/
import JaxleyVerif.Model.Sim
import JaxleyVerif.Props.C08_Sim

namespace JaxleyVerif.Props.Sim
open JaxleyVerif JaxleyVerif.Model JaxleyVerif.Model.Step JaxleyVerif.Model.Synapse

/-! ### the generic accumulation `Model.Synapse.synTerms` (any carrier) -/

section generic
variable {α : Type} [Add α] [Sub α] [Mul α] [Div α] [OfNat α 0]

omit [OfNat α 0] in
/-- (C09) an edge reads the voltages at its pre and its post compartment only -/
theorem edgeTerms_congr (conv : Nat → α) (v v' : Nat → α) (d : α) (e : SynEdge α) (hpre : v e.pre = v' e.pre)
    (hpost : v e.post = v' e.post) : edgeTerms conv v d e = edgeTerms conv v' d e := by
  unfold edgeTerms
  rw [hpre, hpost]

omit [OfNat α 0] in
theorem synTerms_fold_filter (conv : Nat → α) (v : Nat → α) (d : α) (c : Nat) : ∀ (edges : List (SynEdge α)) (acc : α × α),
    edges.foldl (fun acc e => if e.post == c then
        ((acc.1 + (edgeTerms conv v d e).1, acc.2 - (edgeTerms conv v d e).2) : α × α) else acc) acc =
    (edges.filter (fun e => e.post == c)).foldl (fun acc e => if e.post == c then
        ((acc.1 + (edgeTerms conv v d e).1, acc.2 - (edgeTerms conv v d e).2) : α × α) else acc) acc := by
  intro edges
  induction edges with
  | nil => intro acc; rfl
  | cons e t ih =>
    intro acc
    rw [List.foldl_cons, List.filter_cons]
    cases h : (e.post == c)
    · simp only [Bool.false_eq_true, if_false]
      exact ih acc
    · simp only [if_true, List.foldl_cons, h]
      exact ih _

/-- (C09) **only the edges that end in `c` contribute to the terms of compartment `c`** (the fold form of
`C09.synTerms_eq_sum`, valid for every carrier, also `Float`) -/
theorem synTerms_filter (conv : Nat → α) (v : Nat → α) (d : α) (edges : List (SynEdge α)) (c : Nat) :
    synTerms conv v d edges c = synTerms conv v d (edges.filter (fun e => e.post == c)) c := by
  unfold synTerms
  rw [synTerms_fold_filter conv v d c edges, synTerms_fold_filter conv v d c (edges.filter _), List.filter_filter]

/-- (C09) a compartment that is the post site of no edge receives the zero terms -/
theorem synTerms_none (conv : Nat → α) (v : Nat → α) (d : α) (edges : List (SynEdge α)) (c : Nat)
    (h : ∀ e ∈ edges, (e.post == c) = false) : synTerms conv v d edges c = (0, 0) := by
  rw [synTerms_filter]
  have : edges.filter (fun e => e.post == c) = [] := List.filter_eq_nil_iff.mpr (fun e he => by simp [h e he])
  rw [this]
  rfl

/-- (C09) the terms of `c` read the voltages at the pre compartments of the edges into `c` and at `c` itself only -/
theorem synTerms_congr_v (conv : Nat → α) (v v' : Nat → α) (d : α) (c : Nat) : ∀ (edges : List (SynEdge α)),
    (∀ e ∈ edges, v e.pre = v' e.pre ∧ v e.post = v' e.post) →
    synTerms conv v d edges c = synTerms conv v' d edges c := by
  intro edges h
  unfold synTerms
  suffices hs : ∀ (acc : α × α), edges.foldl (fun acc e => if e.post == c then
        ((acc.1 + (edgeTerms conv v d e).1, acc.2 - (edgeTerms conv v d e).2) : α × α) else acc) acc =
      edges.foldl (fun acc e => if e.post == c then
        ((acc.1 + (edgeTerms conv v' d e).1, acc.2 - (edgeTerms conv v' d e).2) : α × α) else acc) acc from hs (0, 0)
  induction edges with
  | nil => intro acc; rfl
  | cons e t ih =>
    intro acc
    rw [List.foldl_cons, List.foldl_cons, edgeTerms_congr conv v v' d e (h e (by simp)).1 (h e (by simp)).2]
    exact ih (fun e' he' => h e' (List.mem_cons_of_mem _ he')) _

end generic

/-! ### the edges of a module as data -/

/-- everything `Sim.synEdges` uses of one edge: its type's class name and prefix, the listed pre and post compartment, its own
state and parameter rows, radius and length of the POST compartment -/
structure EdgeData where
  name : String
  pfx : String
  pre : Nat
  post : Nat
  st : String → Float
  pr : String → Float
  r : Float
  l : Float

def edgeData (m : SimModule) (u : State Float) (s : Model.Sim.SynType) (e : Nat) : EdgeData :=
  { name := s.name, pfx := s.pfx, pre := s.pre.getD e 0, post := s.post.getD e 0,
    st := Model.Sim.stateAt u e, pr := Model.Sim.edgeParamAt s e,
    r := (m.comps.getD (s.post.getD e 0) default).r, l := (m.comps.getD (s.post.getD e 0) default).l }

/-- the `SynEdge` (current DENSITY in the post compartment) of an edge -/
def toSynEdge (d : EdgeData) : SynEdge Float :=
  { pre := d.pre, post := d.post,
    cur := fun vpre vpost => Gen.convert_point_process_to_distributed
      (Model.Sim.kernel1 (d.name ++ ".compute_current") d.pfx #[vpre, vpost] d.st d.pr) d.r d.l }

/-- all edges of the module, grouped by type, in row order -/
def allEdgeData (m : SimModule) (u : State Float) : List EdgeData :=
  m.syns.flatMap (fun s => (List.range s.pre.size).map (edgeData m u s))

theorem synEdges_eq (m : SimModule) (u : State Float) (s : Model.Sim.SynType) :
    Model.Sim.synEdges m u s = (List.range s.pre.size).map (fun e => toSynEdge (edgeData m u s e)) := rfl

theorem allEdges_eq (m : SimModule) (u : State Float) :
    m.syns.flatMap (Model.Sim.synEdges m u) = (allEdgeData m u).map toSynEdge := by
  unfold allEdgeData
  rw [List.map_flatMap]
  congr 1
  funext s
  rw [synEdges_eq, List.map_map]
  rfl

/-- the voltage a synapse reads at compartment `i` -/
def vAt (u : State Float) (i : Nat) : Float := (getArr u "v").getD i Model.Sim.nan

/-! ### 1. the synaptic terms of a compartment -/

/-- (C09) the synaptic (voltage term, constant term) handed to the solver for compartment `c`, read from the arrays
`Sim.synapseCurrents` returns: the accumulation over exactly the edges whose listed POST compartment is `c` -/
theorem sim_syn_terms_eq (m : SimModule) (u : State Float) (c : Nat) (hc : c < Model.Sim.ncompTotal m) :
    ((Model.Sim.synapseCurrents m u).2.1.getD c 0.0, (Model.Sim.synapseCurrents m u).2.2.getD c 0.0) =
      synTerms (fun _ => 1.0) (vAt u) Model.Sim.diff
        (((allEdgeData m u).filter (fun d => d.post == c)).map toSynEdge) c := by
  have h1 : (Model.Sim.synapseCurrents m u).2.1.getD c 0.0 =
      (synTerms (fun _ => 1.0) (vAt u) Model.Sim.diff (m.syns.flatMap (Model.Sim.synEdges m u)) c).1 := by
    show ((((Array.range (Model.Sim.ncompTotal m)).map _).map (fun (t : Float × Float) => t.1)).getD c 0.0) = _
    simp [Array.getD_eq_getD_getElem?, hc]
    rfl
  have h2 : (Model.Sim.synapseCurrents m u).2.2.getD c 0.0 =
      (synTerms (fun _ => 1.0) (vAt u) Model.Sim.diff (m.syns.flatMap (Model.Sim.synEdges m u)) c).2 := by
    show ((((Array.range (Model.Sim.ncompTotal m)).map _).map (fun (t : Float × Float) => t.2)).getD c 0.0) = _
    simp [Array.getD_eq_getD_getElem?, hc]
    rfl
  rw [h1, h2, allEdges_eq, synTerms_filter, List.filter_map]
  rfl

/-- (C09) **the synaptic terms of compartment `c` are local**: two (module, state) pairs with the same edges INTO `c`
(class, prefix, listed pre and post compartment, the edge's own state and parameter rows, geometry of the post compartment,
in the same order) and the same voltages at the pre compartments of these edges and at `c` hand the same synaptic terms for
`c` to the solver — whatever else differs (other edges, other compartments) -/
theorem sim_syn_terms_local (m m' : SimModule) (u u' : State Float) (c : Nat)
    (hc : c < Model.Sim.ncompTotal m) (hc' : c < Model.Sim.ncompTotal m')
    (hedges : (allEdgeData m u).filter (fun d => d.post == c) = (allEdgeData m' u').filter (fun d => d.post == c))
    (hpre : ∀ d ∈ (allEdgeData m u).filter (fun d => d.post == c), vAt u d.pre = vAt u' d.pre)
    (hpost : vAt u c = vAt u' c) :
    ((Model.Sim.synapseCurrents m u).2.1.getD c 0.0, (Model.Sim.synapseCurrents m u).2.2.getD c 0.0) =
      ((Model.Sim.synapseCurrents m' u').2.1.getD c 0.0, (Model.Sim.synapseCurrents m' u').2.2.getD c 0.0) := by
  rw [sim_syn_terms_eq m u c hc, sim_syn_terms_eq m' u' c hc', ← hedges]
  apply synTerms_congr_v
  intro e he
  obtain ⟨d, hd, rfl⟩ := List.mem_map.mp he
  have hp : d.post = c := by simpa using (List.mem_filter.mp hd).2
  refine ⟨hpre d hd, ?_⟩
  show vAt u d.post = vAt u' d.post
  rw [hp]
  exact hpost

/-- (C09) a compartment that is the listed post compartment of no edge receives the zero terms (the `0` the accumulation
starts from) -/
theorem sim_syn_terms_none (m : SimModule) (u : State Float) (c : Nat) (hc : c < Model.Sim.ncompTotal m)
    (h : ∀ d ∈ allEdgeData m u, (d.post == c) = false) :
    ((Model.Sim.synapseCurrents m u).2.1.getD c 0.0, (Model.Sim.synapseCurrents m u).2.2.getD c 0.0) =
      ((0 : Float), (0 : Float)) := by
  rw [sim_syn_terms_eq m u c hc]
  have : (allEdgeData m u).filter (fun d => d.post == c) = [] :=
    List.filter_eq_nil_iff.mpr (fun d hd => by simp [h d hd])
  rw [this]
  rfl

/-! ### 2. the synaptic state update reads the edge's own row and the voltages of its pre and post compartment -/

/-- the `update_states` kernel call of edge `e` of type `s` -/
def synUpd (s : Model.Sim.SynType) (dt : Float) (v : List Float) (u : State Float) (e : Nat) : List (String × Float) :=
  Model.Sim.kernelKV (s.name ++ ".update_states") s.pfx
    #[dt, v.getD (s.pre.getD e 0) Model.Sim.nan, v.getD (s.post.getD e 0) Model.Sim.nan]
    (Model.Sim.stateAt u e) (Model.Sim.edgeParamAt s e)

/-- the names of the states a type writes (those returned for its first edge) -/
def synKeys (s : Model.Sim.SynType) (dt : Float) (v : List Float) (u : State Float) : List String :=
  ((((List.range s.pre.size).map (synUpd s dt v u)).headD []).map (·.1))

/-- the step of one synapse type -/
def synTypeStep (dt : Float) (v : List Float) (u : State Float) (s : Model.Sim.SynType) : State Float :=
  (synKeys s dt v u).foldl (fun u' k =>
    setArr u' k (((List.range s.pre.size).map (synUpd s dt v u)).map
      (fun kv => ((kv.find? (·.1 == k)).map (·.2)).getD Model.Sim.nan))) u

theorem stepSynapseState_eq (m : SimModule) (dt : Float) (u : State Float) :
    Model.Sim.stepSynapseState m dt u = m.syns.foldl (synTypeStep dt (getArr u "v")) u := rfl

theorem fold_setArr_notin {α : Type} (F : String → List α) (k : String) : ∀ (keys : List String) (u : State α),
    k ∉ keys → getArr (keys.foldl (fun u' k' => setArr u' k' (F k')) u) k = getArr u k := by
  intro keys
  induction keys with
  | nil => intro u _; rfl
  | cons k0 t ih =>
    intro u h
    rw [List.foldl_cons, ih _ (fun hm => h (List.mem_cons_of_mem _ hm)),
      getArr_setArr_ne _ _ _ _ (fun he => h (by simp [he]))]

theorem fold_setArr_mem {α : Type} (F : String → List α) (k : String) : ∀ (keys : List String) (u : State α),
    k ∈ keys → getArr (keys.foldl (fun u' k' => setArr u' k' (F k')) u) k = F k := by
  intro keys
  induction keys with
  | nil => intro u h; simp at h
  | cons k0 t ih =>
    intro u h
    rw [List.foldl_cons]
    by_cases ht : k ∈ t
    · exact ih _ ht
    · have hk : k = k0 := by
        rcases List.mem_cons.mp h with h | h
        · exact h
        · exact absurd h ht
      rw [fold_setArr_notin F k t _ ht, hk, C08.getArr_setArr]

/-- (C09) row `e` of a state array written by the step of type `s` is the value the `update_states` kernel returns for edge
`e`, and that call receives the edge's own state and parameter row, `v[pre e]` and `v[post e]` — nothing else -/
theorem sim_syn_state_row (s : Model.Sim.SynType) (dt : Float) (v : List Float) (u : State Float) (k : String)
    (hk : k ∈ synKeys s dt v u) (e : Nat) (he : e < s.pre.size) :
    (getArr (synTypeStep dt v u s) k)[e]? =
      some ((((synUpd s dt v u e).find? (·.1 == k)).map (·.2)).getD Model.Sim.nan) := by
  unfold synTypeStep
  rw [fold_setArr_mem _ k _ u hk]
  simp [he]

/-- (C09) **the new state of an edge depends only on that edge's own state and parameters and on the voltages at its listed
pre and post compartment**: two states (and voltage arrays) that agree there give the same new row `e` for every state name
the type writes in both runs -/
theorem sim_syn_state_reads_pre_post (s : Model.Sim.SynType) (dt : Float) (v v' : List Float) (u u' : State Float)
    (e : Nat) (he : e < s.pre.size) (hst : Model.Sim.stateAt u e = Model.Sim.stateAt u' e)
    (hpre : v.getD (s.pre.getD e 0) Model.Sim.nan = v'.getD (s.pre.getD e 0) Model.Sim.nan)
    (hpost : v.getD (s.post.getD e 0) Model.Sim.nan = v'.getD (s.post.getD e 0) Model.Sim.nan)
    (k : String) (hk : k ∈ synKeys s dt v u) (hk' : k ∈ synKeys s dt v' u') :
    (getArr (synTypeStep dt v u s) k)[e]? = (getArr (synTypeStep dt v' u' s) k)[e]? := by
  rw [sim_syn_state_row s dt v u k hk e he, sim_syn_state_row s dt v' u' k hk' e he]
  unfold synUpd
  rw [hst, hpre, hpost]

/-! ### 3. a module without synapses -/

/-- (C09) without synapses the synaptic state step is the identity -/
theorem sim_no_synapses_state (m : SimModule) (hm : m.syns = []) (dt : Float) (u : State Float) :
    Model.Sim.stepSynapseState m dt u = u := by
  rw [stepSynapseState_eq, hm]
  rfl

/-- (C09) without synapses the synaptic current step leaves the state unchanged and hands all-zero terms to the solver -/
theorem sim_no_synapses_currents (m : SimModule) (hm : m.syns = []) (u : State Float) :
    Model.Sim.synapseCurrents m u =
      (u, (Array.range (Model.Sim.ncompTotal m)).map (fun _ => (0 : Float)),
          (Array.range (Model.Sim.ncompTotal m)).map (fun _ => (0 : Float))) := by
  unfold Model.Sim.synapseCurrents
  simp only [hm, List.flatMap_nil, List.foldl_nil, Array.map_map]
  rfl

/-- (C09) **a module without synapses**: the mechanism step consists of the channel steps only; the linearisation stored for
the solver is the channel linearisation plus the zero the synaptic accumulation starts from -/
theorem sim_no_synapses (m : SimModule) (hm : m.syns = []) (dt : Float) (u : State Float) (iext : List Float) :
    Model.Sim.mech m dt u iext =
      setArr (setArr (Model.Sim.channelCurrents m (Model.Sim.stepChannelsState m dt u)).1 Model.Sim.keyGm
        ((List.range (Model.Sim.ncompTotal m)).map (fun i =>
          (Model.Sim.channelCurrents m (Model.Sim.stepChannelsState m dt u)).2.1.getD i 0.0 + (0 : Float))))
        Model.Sim.keyKm
        ((List.range (Model.Sim.ncompTotal m)).map (fun i =>
          (Model.Sim.channelCurrents m (Model.Sim.stepChannelsState m dt u)).2.2.getD i 0.0 + (0 : Float))) := by
  unfold Model.Sim.mech
  simp only [sim_no_synapses_state m hm, sim_no_synapses_currents m hm]
  congr 1
  · congr 1
    apply List.map_congr_left
    intro i hi
    have : i < Model.Sim.ncompTotal m := List.mem_range.mp hi
    simp [Array.getD_eq_getD_getElem?, this]
  · apply List.map_congr_left
    intro i hi
    have : i < Model.Sim.ncompTotal m := List.mem_range.mp hi
    simp [Array.getD_eq_getD_getElem?, this]

end JaxleyVerif.Props.Sim
