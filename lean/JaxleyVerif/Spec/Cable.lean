/-
Cable physics, written from cable theory with the unit derivation explicit (import-free; executable over Rat).

Units of the inputs (jaxley's documented units):
  radius r, length l : µm          axial resistivity ρ : Ω·cm        capacitance c : µF/cm²
  membrane linearisation per area:  i_mem = gm·V − km   with gm in mS/cm² (= µA/cm²/mV), km in µA/cm²
  stimulus I : nA                   voltage : mV                     time : ms

Derived (absolute) quantities of one compartment:
  area        A   = 2π·r·l                µm²  = 2π·r·l·10⁻⁸ cm²
  capacitance C   = c·A·10⁻⁸              µF
  half axial resistance  R½ = ρ·(l/2·10⁻⁴ cm)/(π·r²·10⁻⁸ cm²) = ρ·l/(2π·r²)·10⁴   Ω
  conductance between neighbouring centres   G_ij = 1/(R½_i + R½_j)   S ;  to a branch point  G_ik = 1/R½_i
Currents:  G [S] · ΔV [mV] = mA = 10³ µA ;  C [µF] · dV/dt [mV/ms] = µA ;  A[cm²]·i_mem[µA/cm²] = µA ; I [nA] = 10⁻³ µA.

SpecSys (backward Euler, step dt): for every compartment i
   C_i (x_i − v_i)/dt = Σ_j 10³·G_ij (x_j − x_i) + Σ_k 10³·G_ik (y_k − x_i) − A_i·10⁻⁸ (gm_i x_i − km_i) + 10⁻³ I_i
and for every branch point k (zero capacitance, Kirchhoff)
   0 = Σ_i G_ik (x_i − y_k).
-/
import JaxleyVerif.Prelude.Scalar

namespace JaxleyVerif.Spec.Cable
open JaxleyVerif

structure Comp (α : Type) where
  r : α
  l : α
  ra : α
  cm : α
deriving Repr

instance {α : Type} [Inhabited α] : Inhabited (Comp α) := ⟨⟨default, default, default, default⟩⟩

section
variable {α : Type} [Add α] [Sub α] [Mul α] [Div α] [OfScientific α] [HasPi α]

/-- membrane area in cm² -/
def areaCm2 (c : Comp α) : α := 2.0 * HasPi.pi * c.r * c.l * 1.0e-8
/-- capacitance in µF -/
def capUF (c : Comp α) : α := c.cm * areaCm2 c
/-- half axial resistance in Ω -/
def rHalf (c : Comp α) : α := c.ra * c.l / (2.0 * HasPi.pi * (c.r * c.r)) * 1.0e4
/-- centre-to-centre conductance in S -/
def gAxial (a b : Comp α) : α := 1.0 / (rHalf a + rHalf b)
/-- centre-to-end conductance in S -/
def gEnd (a : Comp α) : α := 1.0 / rHalf a

/-- axial current into compartment `i` from neighbour `j` in µA -/
def axialCurrent (a b : Comp α) (xi xj : α) : α := 1.0e3 * gAxial a b * (xj - xi)

end
end JaxleyVerif.Spec.Cable
