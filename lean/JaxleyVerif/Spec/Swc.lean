/-
Independent specification of "the branches of an SWC morphology" (import-free), written from the meaning of the SWC
format, not from jaxley's reader.

An SWC file is a list of traced points `id type x y z r parent`; it describes a rooted tree.  A *section* (NEURON's
unbranched cable, jaxley's "branch") is a maximal path along which nothing happens: every interior point has exactly
one child and that child has the same type.  A section is written as the list of point ids starting with the point it
hangs off (the parent of its first own point); a section that starts at the root starts with the root itself.

Documented conventions of jaxley (`read_swc` docstring and comments), taken as parameters of the spec:
  * a soma traced as a single point is one branch `[root]` of length `2 r` (sphere with area `4 π r²`);
  * for a section hanging off a single-point soma the gap between the soma centre and its first point is ignored;
  * a section of total length `0` gets length `1.0`.
-/
namespace JaxleyVerif.Spec.Swc

structure Pt where
  id : Nat
  type : Nat
  x : Float
  y : Float
  z : Float
  r : Float
  parent : Int

abbrev File := List Pt

def point? (f : File) (i : Nat) : Option Pt := f.find? (·.id == i)
def typeOf (f : File) (i : Nat) : Nat := ((point? f i).map (·.type)).getD 0
def parentOf (f : File) (i : Nat) : Int := ((point? f i).map (·.parent)).getD (-1)

/-- ids of the points whose parent is `p`, in file order -/
def children (f : File) (p : Nat) : List Nat := (f.filter (·.parent == (p : Int))).map (·.id)

/-- `a` is `i` or an ancestor of `i` (parents have smaller ids in a well-formed file, so `fuel = i` suffices) -/
def isAncestorOrSelf (f : File) (a : Nat) : (fuel : Nat) → (i : Nat) → Bool
  | 0, i => a == i
  | fuel + 1, i => a == i || (match parentOf f i with
      | .ofNat p => p ≥ 1 && isAncestorOrSelf f a fuel p
      | _ => false)

/-- a single tree, ids `1..n` in file order, parents before children, depth-first (pre-order) listing -/
def wellFormed (f : File) : Bool :=
  f.length ≥ 2
  && f.map (·.id) == (List.range f.length).map (· + 1)
  && (f.head?.map (·.parent)) == some (-1)
  && (f.drop 1).all (fun p => 1 ≤ p.parent && p.parent < (p.id : Int)
        -- pre-order: the parent of a point is the previous point or one of its ancestors
        && isAncestorOrSelf f p.parent.toNat p.id (p.id - 1))

def rootId (f : File) : Nat := (f.head?.map (·.id)).getD 1

/-- the soma is a single traced point: the root is a soma point and none of its children is -/
def singlePointSoma (f : File) : Bool :=
  typeOf f (rootId f) == 1 && (children f (rootId f)).all (fun c => typeOf f c != 1)

/-- `c` continues the section of its parent `p`: `p` has no other child and the type does not change -/
def continues (f : File) (c : Pt) : Bool :=
  match c.parent with
  | .ofNat p => children f p == [c.id] && typeOf f p == c.type
  | _ => false

/-- the unbranched same-type path that starts at `i` -/
def chain (f : File) : (fuel : Nat) → (i : Nat) → List Nat
  | 0, i => [i]
  | fuel + 1, i => i :: (match children f i with
      | [d] => if typeOf f d == typeOf f i then chain f fuel d else []
      | _ => [])

/-- all sections, in file order of their first own point -/
def sections (f : File) : List (List Nat) :=
  f.filterMap (fun p =>
    if p.parent == -1 then
      -- the root: its own section if its only child continues it; the one-point branch of a single-point soma
      match chain f f.length p.id with
      | [_] => if singlePointSoma f then some [p.id] else none
      | s => some s
    else if continues f p then none
    else some (p.parent.toNat :: chain f f.length p.id))

def insertByHead (s : List Nat) : List (List Nat) → List (List Nat)
  | [] => [s]
  | t :: ts => if s.headD 0 ≤ t.headD 0 then s :: t :: ts else t :: insertByHead s ts

/-- sections sorted (stably) by their first id: comparable with the reader's branches for `max_branch_len = None` -/
def specBranches (f : File) : List (List Nat) := (sections f).foldr insertByHead []

/-- the neurite type of a section: the type of its own points (all equal by maximality), e.g. of its last point -/
def sectionType (f : File) (s : List Nat) : Nat := typeOf f (s.getLast?.getD 0)

def dist (a b : Pt) : Float :=
  Float.sqrt ((b.x - a.x) * (b.x - a.x) + (b.y - a.y) * (b.y - a.y) + (b.z - a.z) * (b.z - a.z))

def pathLength : List Pt → Float
  | a :: b :: rest => dist a b + pathLength (b :: rest)
  | _ => 0.0

/-- length of a section under the documented conventions -/
def sectionLength (f : File) (s : List Nat) : Float :=
  match s.filterMap (point? f) with
  | [p] => 2 * p.r
  | pts =>
    let own := if singlePointSoma f && s.head? == some (rootId f) then pts.drop 1 else pts
    let l := pathLength own
    if l == 0.0 then 1.0 else l

end JaxleyVerif.Spec.Swc
