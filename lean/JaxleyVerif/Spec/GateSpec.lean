/-
Specification of a correct gate update (C03), independent of jaxley's code.
-/
import JaxleyVerif.Lemmas.RealInst
import JaxleyVerif.Spec.Published

namespace JaxleyVerif.Spec

/-- `x'` is a correct update of gate value `x` over a step `dt` at frozen steady state `xinf` and time
constant `tau`: it equals the closed-form solution of `x' = (x_∞ − x)/τ`, lies in `[0,1]`, and has moved
toward — never past — the steady state. -/
structure GateOK (x' x dt xinf tau : ℝ) : Prop where
  closed : x' = gateClosedForm x dt xinf tau
  mem : 0 ≤ x' ∧ x' ≤ 1
  toward : ∃ e : ℝ, 0 < e ∧ e < 1 ∧ x' - xinf = (x - xinf) * e

end JaxleyVerif.Spec
