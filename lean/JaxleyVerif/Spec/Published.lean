/-
Published kinetics — typed in from the sources, NOT from jaxley's code (import-free).

* Hodgkin & Huxley 1952 in the form of NEURON's `hh.mod` at 6.3 °C (q10 factor 1):
    α_m = 0.1·vtrap(−(v+40),10)   β_m = 4·exp(−(v+65)/18)
    α_h = 0.07·exp(−(v+65)/20)    β_h = 1/(exp(−(v+35)/10)+1)
    α_n = 0.01·vtrap(−(v+55),10)  β_n = 0.125·exp(−(v+65)/80)       vtrap(x,y) = x/(exp(x/y)−1)
    gnabar .12  gkbar .036  gl .0003 S/cm²   ena 50  ek −77  el −54.3 mV
    ina = gnabar·m³·h·(v−ena)   ik = gkbar·n⁴·(v−ek)   il = gl·(v−el)
* Pospischil et al., Biol. Cybern. 99 (2008) 427–441, eqs. of section 2.
* Abbott & Marder, "Modeling small networks" (1998): graded synapse
    s_∞ = 1/(1+exp((V_th − V_pre)/Δ)),  τ_s = (1 − s_∞)/k₋,  ds/dt = (s_∞ − s)/τ_s,  I = ḡ·s·(V_post − E_syn).
-/
import JaxleyVerif.Prelude.Scalar

namespace JaxleyVerif.Spec
open JaxleyVerif

section
variable {α : Type} [Add α] [Sub α] [Mul α] [Div α] [Neg α] [OfScientific α] [Transc α]

local notation "exp" => Transc.exp

/-! ### generic gate dynamics -/

/-- Exact solution after `dt` of `x' = (x_∞ − x)/τ` at frozen voltage. -/
def gateClosedForm (x dt xinf tau : α) : α := xinf + (x - xinf) * exp (-dt / tau)

/-- Steady state and time constant of a two-rate gate. -/
def xinfOf (a b : α) : α := a / (a + b)
def tauOf (a b : α) : α := 1.0 / (a + b)

/-! ### Hodgkin–Huxley (hh.mod, 6.3 °C) -/
namespace HH
def vtrap (x y : α) : α := x / (exp (x / y) - 1.0)
def alpha_m (v : α) : α := 0.1 * vtrap (-(v + 40.0)) 10.0
def beta_m (v : α) : α := 4.0 * exp (-(v + 65.0) / 18.0)
def alpha_h (v : α) : α := 0.07 * exp (-(v + 65.0) / 20.0)
def beta_h (v : α) : α := 1.0 / (exp (-(v + 35.0) / 10.0) + 1.0)
def alpha_n (v : α) : α := 0.01 * vtrap (-(v + 55.0)) 10.0
def beta_n (v : α) : α := 0.125 * exp (-(v + 65.0) / 80.0)
/-- total current density (mA/cm² for S/cm² and mV) -/
def current (gNa gK gL eNa eK eL m h n v : α) : α :=
  gNa * (m * m * m) * h * (v - eNa) + gK * (n * n * n * n) * (v - eK) + gL * (v - eL)
def defaults (pfx : String) : List (String × α) :=
  [(pfx ++ "_gNa", 0.12), (pfx ++ "_gK", 0.036), (pfx ++ "_gLeak", 0.0003), (pfx ++ "_eNa", 50.0),
   (pfx ++ "_eK", -77.0), (pfx ++ "_eLeak", -54.3)]
end HH

/-! ### Pospischil et al. 2008 -/
namespace Posp
def leak_current (g e v : α) : α := g * (v - e)
-- Na
def alpha_m (v vt : α) : α := -0.32 * (v - vt - 13.0) / (exp (-(v - vt - 13.0) / 4.0) - 1.0)
def beta_m (v vt : α) : α := 0.28 * (v - vt - 40.0) / (exp ((v - vt - 40.0) / 5.0) - 1.0)
def alpha_h (v vt : α) : α := 0.128 * exp (-(v - vt - 17.0) / 18.0)
def beta_h (v vt : α) : α := 4.0 / (1.0 + exp (-(v - vt - 40.0) / 5.0))
def na_current (g e m h v : α) : α := g * (m * m * m) * h * (v - e)
-- Kd
def alpha_n (v vt : α) : α := -0.032 * (v - vt - 15.0) / (exp (-(v - vt - 15.0) / 5.0) - 1.0)
def beta_n (v vt : α) : α := 0.5 * exp (-(v - vt - 10.0) / 40.0)
def k_current (g e n v : α) : α := g * (n * n * n * n) * (v - e)
-- M
def p_inf (v : α) : α := 1.0 / (1.0 + exp (-(v + 35.0) / 10.0))
def tau_p (v taumax : α) : α := taumax / (3.3 * exp ((v + 35.0) / 20.0) + exp (-(v + 35.0) / 20.0))
def km_current (g e p v : α) : α := g * p * (v - e)
-- L-type Ca
def alpha_q (v : α) : α := 0.055 * (-27.0 - v) / (exp ((-27.0 - v) / 3.8) - 1.0)
def beta_q (v : α) : α := 0.94 * exp ((-75.0 - v) / 17.0)
def alpha_r (v : α) : α := 0.000457 * exp ((-13.0 - v) / 50.0)
def beta_r (v : α) : α := 0.0065 / (exp ((-15.0 - v) / 28.0) + 1.0)
def cal_current (g e q r v : α) : α := g * (q * q) * r * (v - e)
-- T-type Ca
def s_inf (v vx : α) : α := 1.0 / (1.0 + exp (-(v + vx + 57.0) / 6.2))
def u_inf (v vx : α) : α := 1.0 / (1.0 + exp ((v + vx + 81.0) / 4.0))
def tau_u (v vx : α) : α :=
  (30.8 + (211.4 + exp ((v + vx + 113.2) / 5.0))) / (3.7 * (1.0 + exp ((v + vx + 84.0) / 3.2)))
def cat_current (g e u v vx : α) : α := g * (s_inf v vx * s_inf v vx) * u * (v - e)
/-- documented default parameters (jaxley docs; conductances S/cm², potentials mV, time ms) -/
def leak_defaults (pfx : String) : List (String × α) := [(pfx ++ "_gLeak", 1e-4), (pfx ++ "_eLeak", -70.0)]
def na_defaults (pfx : String) : List (String × α) := [(pfx ++ "_gNa", 0.05), ("eNa", 50.0), ("vt", -60.0)]
def k_defaults (pfx : String) : List (String × α) := [(pfx ++ "_gK", 0.005), ("eK", -90.0), ("vt", -60.0)]
def km_defaults (pfx : String) : List (String × α) := [(pfx ++ "_gKm", 4e-6), (pfx ++ "_taumax", 4000.0), ("eK", -90.0)]
def cal_defaults (pfx : String) : List (String × α) := [(pfx ++ "_gCaL", 1e-4), ("eCa", 120.0)]
def cat_defaults (pfx : String) : List (String × α) := [(pfx ++ "_gCaT", 4e-5), (pfx ++ "_vx", 2.0), ("eCa", 120.0)]
end Posp

/-! ### Abbott & Marder graded synapse -/
namespace AM
def s_inf (vpre : α) : α := 1.0 / (1.0 + exp ((-35.0 - vpre) / 10.0))
def tau_s (vpre kminus : α) : α := (1.0 - s_inf vpre) / kminus
def current (g e s vpost : α) : α := g * s * (vpost - e)
def defaults (pfx : String) : List (String × α) := [(pfx ++ "_gS", 1e-4), (pfx ++ "_e_syn", 0.0), (pfx ++ "_k_minus", 0.025)]
end AM

end
end JaxleyVerif.Spec
