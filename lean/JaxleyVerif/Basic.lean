def hello := "world"
