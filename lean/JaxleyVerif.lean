-- This module serves as the root of the `JaxleyVerif` library.
-- Import modules here that should be built as part of the library.
import JaxleyVerif.Basic
