#!/usr/bin/env python3
"""Confirm seeded changes independently: for every /verif/seeded/<id>/ whose meta.json has no `confirmed.suite` entry, apply the
patch in a scratch worktree of /repo (outside /repo and /verif), run the repository's test suite (without the timing tests of
tests/test_regression.py) and the demonstration before/after, and record the outcome in meta.json."""
import json, os, re, subprocess, sys, glob

ROOT = os.path.dirname(os.path.dirname(os.path.abspath(__file__)))
WT = os.environ.get("SEED_WT", "/tmp/scratch/wt2")


def sh(cmd, **kw):
    return subprocess.run(cmd, shell=True, capture_output=True, text=True, **kw)


def main():
    head = sh("git -C /repo rev-parse HEAD").stdout.strip()
    if not os.path.isdir(WT):
        sh(f"git -C /repo worktree add --detach {WT} {head}")
    for d in sorted(glob.glob(os.path.join(ROOT, "seeded", "*"))):
        if len(sys.argv) > 1 and os.path.basename(d) not in sys.argv[1:]:
            continue
        mp = os.path.join(d, "meta.json")
        meta = json.load(open(mp)) if os.path.exists(mp) else {}
        if meta.get("confirmed", {}).get("suite"):
            continue
        sh(f"git -C {WT} checkout -q --detach {head}; git -C {WT} checkout -- .; git -C {WT} clean -fdq")
        env = dict(os.environ, PYTHONPATH=WT)
        demo = os.path.join(d, "demo.py")
        c = dict(repo_head=head)
        if os.path.exists(demo):
            c["demo_exit_unchanged"] = sh(f"cd {WT} && timeout 900 /venv/bin/python {demo}", env=env).returncode
        r = sh(f"git -C {WT} apply {os.path.join(d, 'patch.diff')}")
        if r.returncode != 0:
            c["apply_error"] = r.stderr[-300:]
        else:
            if os.path.exists(demo):
                r = sh(f"cd {WT} && timeout 900 /venv/bin/python {demo}", env=env)
                c["demo_exit_changed"] = r.returncode
                c["demo_output_changed"] = (r.stdout + r.stderr)[-500:]
            r = sh(f"cd {WT} && timeout 3000 /venv/bin/python -m pytest -q -p no:cacheprovider -n 6 tests --ignore=tests/test_regression.py 2>&1 | tail -3", env=env)
            c["suite"] = r.stdout.strip().splitlines()[-1] if r.stdout.strip() else "no output"
            c["suite_cmd"] = "pytest -q -n 6 tests --ignore=tests/test_regression.py (in a scratch worktree with the patch applied)"
        meta["confirmed"] = c
        json.dump(meta, open(mp, "w"), indent=1)
        print(os.path.basename(d), c.get("demo_exit_unchanged"), c.get("demo_exit_changed"), c.get("suite"), flush=True)
        sh(f"git -C {WT} checkout -- .; git -C {WT} clean -fdq")


if __name__ == "__main__":
    main()
