#!/usr/bin/env python3
"""Run the registered checks against a seeded change.

usage: tools/seedtest.py <seeded-dir> [--props C01,C12] [--seeds 0,1] [--tier quick] [--wt /tmp/scratch/wt]

The change is applied in a scratch git worktree of /repo (never in /repo itself); the demonstration is run before and after
(expected exit 0 / 1); then `VERIF_REPO=<wt> bin/check <prop> <tier>` is run per seed. The worktree is reset afterwards and the
generated Lean files are regenerated from /repo. Prints one line per run and a JSON summary (also appended to <seeded-dir>/runs.json).
"""
import argparse, json, os, subprocess, sys, time

ROOT = os.path.dirname(os.path.dirname(os.path.abspath(__file__)))


def sh(cmd, **kw):
    return subprocess.run(cmd, shell=True, capture_output=True, text=True, **kw)


def main():
    ap = argparse.ArgumentParser()
    ap.add_argument("dir")
    ap.add_argument("--props", default=None)
    ap.add_argument("--seeds", default="0,1")
    ap.add_argument("--tier", default="quick")
    ap.add_argument("--wt", default="/tmp/scratch/wt")
    ap.add_argument("--no-demo", action="store_true")
    a = ap.parse_args()
    d = os.path.abspath(a.dir)
    meta = json.load(open(os.path.join(d, "meta.json"))) if os.path.exists(os.path.join(d, "meta.json")) else {}
    props = (a.props or meta.get("property", "")).split(",")
    wt = a.wt
    head = sh("git -C /repo rev-parse HEAD").stdout.strip()
    if not os.path.isdir(wt):
        sh(f"git -C /repo worktree add --detach {wt} {head}")
    sh(f"git -C {wt} checkout -q --detach {head}; git -C {wt} checkout -- .; git -C {wt} clean -fdq")
    env = dict(os.environ, PYTHONPATH=wt)
    demo = os.path.join(d, "demo.py")
    out = dict(dir=d, props=props, head=head, demo_clean=None, demo_patched=None, runs=[])
    try:
        if os.path.exists(demo) and not a.no_demo:
            r = sh(f"cd {wt} && timeout 900 /venv/bin/python {demo}", env=env)
            out["demo_clean"] = r.returncode
        r = sh(f"git -C {wt} apply {os.path.join(d, 'patch.diff')}")
        if r.returncode != 0:
            print("patch does not apply:", r.stderr)
            out["apply_error"] = r.stderr
            return 2
        if os.path.exists(demo) and not a.no_demo:
            r = sh(f"cd {wt} && timeout 900 /venv/bin/python {demo}", env=env)
            out["demo_patched"] = r.returncode
            out["demo_patched_tail"] = (r.stdout + r.stderr)[-600:]
        print(f"demo: clean={out['demo_clean']} patched={out['demo_patched']}")
        for p in props:
            for s in a.seeds.split(","):
                t0 = time.time()
                r = sh(f"cd {ROOT} && timeout 3000 bin/check {p} {a.tier}", env=dict(os.environ, VERIF_REPO=wt, VERIF_SEED=s))
                lines = (r.stdout + r.stderr).strip().split("\n")
                viol = [l for l in lines if l.startswith("VIOLATION")]
                run = dict(prop=p, seed=int(s), tier=a.tier, exit=r.returncode, violation=viol[:1], seconds=round(time.time() - t0, 1),
                           tail=lines[-4:])
                out["runs"].append(run)
                print(f"{p} seed={s} exit={r.returncode} {'CAUGHT ' + viol[0] if viol else 'MISSED'} ({run['seconds']}s)")
    finally:
        sh(f"git -C {wt} checkout -- .; git -C {wt} clean -fdq")
        sh(f"cd {ROOT} && python3 tools/py2lean.py")
    rj = os.path.join(d, "runs.json")
    prev = json.load(open(rj)) if os.path.exists(rj) else []
    prev.append(out)
    json.dump(prev, open(rj, "w"), indent=1)
    return 0


if __name__ == "__main__":
    sys.exit(main())
