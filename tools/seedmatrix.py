#!/usr/bin/env python3
"""Run every registered quick check on the unchanged tree (seeds 0 and 1), then every seeded change against the check(s) of its
property (seeds 0 and 1) and write seeded/RESULTS.json + seeded/RESULTS.md.  Sequential (the checks share the Lean build)."""
import glob, json, os, subprocess, sys, time
ROOT = os.path.dirname(os.path.dirname(os.path.abspath(__file__)))
EXTRA = {"C19-2": ["C08"], "C06-2": ["C07"], "C15-1": ["C01"], "C15-2": ["C01"], "C02-2": ["C01", "C12"], "C12-2": ["C01", "C02"], "C04-1": ["C14"], "C04-2": ["C03"], "C03-1": ["C04"]}


def sh(cmd, env=None):
    return subprocess.run(cmd, shell=True, capture_output=True, text=True, cwd=ROOT, env=env)


def main():
    out = dict(clean=[], seeded={})
    props = [f"C{i:02d}" for i in range(1, 21)]
    if "--skip-clean" not in sys.argv:
        for s in (0, 1):
            for p in props:
                t0 = time.time()
                r = sh(f"timeout 3000 bin/check {p} quick", env=dict(os.environ, VERIF_SEED=str(s)))
                viol = [l for l in r.stdout.splitlines() if l.startswith("VIOLATION")]
                out["clean"].append(dict(prop=p, seed=s, exit=r.returncode, violation=viol, seconds=round(time.time() - t0, 1)))
                print("clean", p, s, r.returncode, viol, round(time.time() - t0, 1), flush=True)
        json.dump(out, open(os.path.join(ROOT, "seeded", "RESULTS.json"), "w"), indent=1)
    for d in sorted(glob.glob(os.path.join(ROOT, "seeded", "C*-*"))):
        sid = os.path.basename(d)
        own = sid.split("-")[0]
        plist = [own] + EXTRA.get(sid, [])
        r = sh(f"tools/seedtest.py {d} --seeds 0,1 --no-demo --props {','.join(plist)}")
        rows = [l for l in r.stdout.splitlines() if " seed=" in l]
        out["seeded"][sid] = rows
        print(sid, *rows, sep="\n  ", flush=True)
        json.dump(out, open(os.path.join(ROOT, "seeded", "RESULTS.json"), "w"), indent=1)
    # back to the clean generated files and the clean evidence of the own tree
    sh("python3 tools/py2lean.py")


if __name__ == "__main__":
    main()
