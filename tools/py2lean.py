#!/usr/bin/env python3
"""py2lean: translate jaxley's scalar formula kernels (Python AST) into Lean 4 definitions.

The translator reads the *current working tree* of the repository (default /repo) and writes
lean/JaxleyVerif/Gen/Kernels.lean (+ Gen/manifest.json).  Accepted subset: see DESIGN.md §2.4.
Anything outside the subset is a translation failure for that kernel (recorded in the manifest);
required kernels that fail make the tool exit 3 (the check then treats this like a broken proof).

Every generated `def f` is polymorphic in the scalar type; the instance binders of each def are
exactly the operations it (transitively) uses, so purely rational kernels can be run over `Rat`.
For every def the translator also emits `f.Defined : … → Prop`, the conjunction of
"denominator ≠ 0" / "log argument > 0" along the evaluated path (definedness obligations, C03).
"""
import ast, hashlib, json, os, sys

REPO = os.environ.get("VERIF_REPO", "/repo")

# file -> (kind, required names).  kind 'funcs': module-level functions; 'classes': class methods
SOURCES = [
    ("jaxley/solver_gate.py", "funcs",
     ["save_exp", "solve_gate_implicit", "solve_gate_exponential", "exponential_euler",
      "solve_inf_gate_exponential"]),
    ("jaxley/channels/hh.py", "both", ["_vtrap", "HH"]),
    ("jaxley/channels/pospischil.py", "both", ["efun", "Leak", "Na", "K", "Km", "CaL", "CaT"]),
    ("jaxley/synapses/ionotropic.py", "both", ["IonotropicSynapse"]),
    ("jaxley/synapses/test.py", "both", ["TestSynapse"]),
    ("jaxley/synapses/tanh_rate.py", "both", ["TanhRateSynapse"]),
    ("jaxley/optimize/transforms.py", "both",
     ["SigmoidTransform", "SoftplusTransform", "NegSoftplusTransform", "AffineTransform"]),
    ("jaxley/utils/cell_utils.py", "funcs",
     ["compute_coupling_cond", "compute_coupling_cond_branchpoint", "compute_impact_on_node",
      "convert_point_process_to_distributed"]),
    ("jaxley/solver_voltage.py", "funcs",
     ["_eliminate_single_child_lower", "_eliminate_single_parent_upper"]),
]
METHODS = {"update_states", "compute_current", "init_state", "forward", "inverse"}
DICT_ATTRS = {"channel_params", "channel_states", "synapse_params", "synapse_states"}
STR_ATTRS = {"current_name"}
MAPPARAMS = {"states", "params"}

ALLCLS = ["Add", "Sub", "Mul", "Div", "Neg", "OfScientific", "Min", "Max", "Transc", "HasPi", "LT"]


class Unsupported(Exception):
    def __init__(self, node, msg):
        self.node, self.msg = node, msg
        super().__init__(f"line {getattr(node, 'lineno', '?')}: {msg}")


def lit(v):
    """Python number -> Lean OfScientific literal."""
    if isinstance(v, bool):
        raise ValueError("bool literal")
    if isinstance(v, int):
        return f"{v}.0" if v >= 0 else f"(-{-v}.0)"
    r = repr(float(v))
    if "inf" in r or "nan" in r:
        raise ValueError("non-finite literal")
    neg = r.startswith("-")
    r = r.lstrip("-")
    if "e" in r:
        m, e = r.split("e")
        if "." not in m:
            m += ".0"
        r = f"{m}e{int(e)}"
    elif "." not in r:
        r += ".0"
    return f"(-{r})" if neg else r


class Fn:
    """One translated function."""

    def __init__(self, lname, params, rettype, body, defined, classes, callees, src, lineno, pyname):
        self.lname, self.params, self.rettype, self.body = lname, params, rettype, body
        self.defined, self.classes, self.callees = defined, set(classes), set(callees)
        self.src, self.lineno, self.pyname = src, lineno, pyname


class Translator:
    def __init__(self):
        self.fns = {}        # lean name -> Fn
        self.order = []
        self.failures = []   # (pyname, file, line, msg)
        self.tables = []     # (lean name, kind, entries)
        self.class_fields = {}   # class -> [field names] in __init__ order
        self.class_bases = {}
        self.module_funcs = {}   # python module-level function name -> lean name
        self.tuple_arity = {}    # lean name -> arity of returned tuple

    # ------------------------------------------------------------------ expressions
    def expr(self, e, ctx):
        """returns lean string; ctx collects classes, callees, obligations."""
        if isinstance(e, ast.Constant):
            if isinstance(e.value, (int, float)) and not isinstance(e.value, bool):
                ctx["classes"].add("OfScientific")
                if isinstance(e.value, int) and e.value < 0:
                    ctx["classes"].add("Neg")
                if isinstance(e.value, float) and e.value < 0:
                    ctx["classes"].add("Neg")
                return lit(e.value)
            raise Unsupported(e, f"constant {e.value!r}")
        if isinstance(e, ast.Name):
            if e.id == "pi":
                ctx["classes"].add("HasPi")
                return "HasPi.pi"
            if e.id in ctx["vars"]:
                return ctx["vars"][e.id]
            raise Unsupported(e, f"unknown name {e.id}")
        if isinstance(e, ast.UnaryOp) and isinstance(e.op, ast.USub):
            ctx["classes"].add("Neg")
            return f"(-{self.expr(e.operand, ctx)})"
        if isinstance(e, ast.UnaryOp) and isinstance(e.op, ast.UAdd):
            return self.expr(e.operand, ctx)
        if isinstance(e, ast.BinOp):
            if isinstance(e.op, ast.Pow):
                # integer exponent only
                if isinstance(e.right, ast.Constant) and isinstance(e.right.value, int) \
                        and 1 <= e.right.value <= 8:
                    if isinstance(e.left, ast.Constant) and isinstance(e.left.value, int):
                        ctx["classes"].add("OfScientific")
                        return lit(e.left.value ** e.right.value)
                    b = self.expr(e.left, ctx)
                    ctx["classes"].add("Mul")
                    s = b
                    for _ in range(e.right.value - 1):
                        s = f"({s} * {b})"
                    return s
                raise Unsupported(e, "power with non-literal or large exponent")
            l, r = self.expr(e.left, ctx), self.expr(e.right, ctx)
            if isinstance(e.op, ast.Add):
                ctx["classes"].add("Add"); return f"({l} + {r})"
            if isinstance(e.op, ast.Sub):
                ctx["classes"].add("Sub"); return f"({l} - {r})"
            if isinstance(e.op, ast.Mult):
                ctx["classes"].add("Mul"); return f"({l} * {r})"
            if isinstance(e.op, ast.Div):
                ctx["classes"].add("Div")
                if not (isinstance(e.right, ast.Constant) and e.right.value != 0):
                    ctx["oblig"].append(("ne0", r))
                return f"({l} / {r})"
            raise Unsupported(e, f"operator {type(e.op).__name__}")
        if isinstance(e, ast.Subscript):
            # states[f"{prefix}_m"] / params["vt"]
            if isinstance(e.value, ast.Name) and e.value.id in ctx["maps"]:
                return f"({e.value.id} {self.strexpr(e.slice, ctx)})"
            raise Unsupported(e, "subscript")
        if isinstance(e, ast.Attribute):
            if isinstance(e.value, ast.Name) and e.value.id == "self" and e.attr in ctx["fields"]:
                ctx["used_fields"].add(e.attr)
                return e.attr
            raise Unsupported(e, f"attribute {ast.unparse(e)}")
        if isinstance(e, ast.Call):
            return self.call(e, ctx)
        if isinstance(e, ast.Tuple):
            return "(" + ", ".join(self.expr(x, ctx) for x in e.elts) + ")"
        raise Unsupported(e, f"expression {type(e).__name__}")

    def strexpr(self, e, ctx):
        if isinstance(e, ast.Constant) and isinstance(e.value, str):
            return json.dumps(e.value)
        if isinstance(e, ast.JoinedStr):
            parts = []
            for v in e.values:
                if isinstance(v, ast.Constant):
                    parts.append(json.dumps(v.value))
                elif isinstance(v, ast.FormattedValue) and isinstance(v.value, ast.Name) \
                        and v.value.id in ctx["prefix_alias"]:
                    ctx["uses_pfx"] = True
                    parts.append("pfx")
                else:
                    raise Unsupported(e, "f-string part")
            return "(" + " ++ ".join(parts) + ")" if parts else '""'
        raise Unsupported(e, "string expression")

    def args(self, call, ctx):
        out = []
        for a in call.args:
            if isinstance(a, ast.Starred):
                inner = self.expr(a.value, ctx)
                ar = ctx.get("last_call_arity")
                if ar != 2:
                    raise Unsupported(a, "starred argument that is not a pair")
                out += [f"({inner}).1", f"({inner}).2"]
            else:
                out.append(self.expr(a, ctx))
        if call.keywords:
            raise Unsupported(call, "keyword arguments")
        return out

    def call(self, e, ctx):
        f = e.func
        ctx["last_call_arity"] = None
        # jnp.* primitives
        if isinstance(f, ast.Attribute) and isinstance(f.value, ast.Name) and f.value.id in ("jnp", "np"):
            n = f.attr
            if n in ("exp", "log", "log1p", "tanh", "sqrt"):
                a = self.args(e, ctx)
                if len(a) != 1:
                    raise Unsupported(e, "arity")
                ctx["classes"].add("Transc")
                if n == "log":
                    ctx["oblig"].append(("pos", a[0]))
                if n == "log1p":
                    ctx["oblig"].append(("gtm1", a[0]))
                ctx["last_call_arity"] = None
                return f"(Transc.{n} {a[0]})"
            if n == "clip":
                if len(e.args) != 3 or e.keywords:
                    raise Unsupported(e, "clip form")
                x = self.expr(e.args[0], ctx)
                lo, hi = e.args[1], e.args[2]
                s = x
                if not (isinstance(lo, ast.Constant) and lo.value is None):
                    ctx["classes"].add("Max"); s = f"(max {s} {self.expr(lo, ctx)})"
                if not (isinstance(hi, ast.Constant) and hi.value is None):
                    ctx["classes"].add("Min"); s = f"(min {s} {self.expr(hi, ctx)})"
                return s
            if n in ("minimum", "maximum"):
                a = self.args(e, ctx)
                ctx["classes"].add("Min" if n == "minimum" else "Max")
                return f"({'min' if n == 'minimum' else 'max'} {a[0]} {a[1]})"
            raise Unsupported(e, f"jnp.{n}")
        # self.method(...)
        if isinstance(f, ast.Attribute) and isinstance(f.value, ast.Name) and f.value.id == "self":
            ln = f"{ctx['cls']}.{f.attr}"
            return self.call_known(e, ln, ctx)
        # super().method(...)
        if isinstance(f, ast.Attribute) and isinstance(f.value, ast.Call) \
                and isinstance(f.value.func, ast.Name) and f.value.func.id == "super":
            base = self.class_bases.get(ctx["cls"])
            if not base:
                raise Unsupported(e, "super() without known base")
            ln = f"{base}.{f.attr}"
            return self.call_known(e, ln, ctx, fields_from=base)
        if isinstance(f, ast.Name) and f.id in self.module_funcs:
            return self.call_known(e, self.module_funcs[f.id], ctx)
        raise Unsupported(e, f"call to {ast.unparse(f)}")

    def call_known(self, e, ln, ctx, fields_from=None):
        if ln not in self.fns:
            raise Unsupported(e, f"call to untranslated {ln}")
        callee = self.fns[ln]
        a = self.args(e, ctx)
        pre = []
        for (pn, pt, dflt, kind) in callee.params:
            if kind == "pfx":
                ctx["uses_pfx"] = True
                pre.append("pfx")
            elif kind == "field":
                ctx["used_fields"].add(pn)
                pre.append(pn)
        nexplicit = [p for p in callee.params if p[3] == "arg"]
        nreq = len([p for p in nexplicit if p[2] is None])
        if not (nreq <= len(a) <= len(nexplicit)):
            raise Unsupported(e, f"arity mismatch calling {ln}")
        ctx["callees"].add(ln)
        ctx["oblig"].append(("call", ln, pre + a))
        ctx["last_call_arity"] = self.tuple_arity.get(ln)
        return "(" + " ".join([ln] + pre + a) + ")"

    # ------------------------------------------------------------------ statements
    def body(self, stmts, ctx):
        """returns (list of (pattern, value) lets, return expr, rettype)."""
        lets = []
        for i, s in enumerate(stmts):
            if isinstance(s, ast.Expr) and isinstance(s.value, ast.Constant) and isinstance(s.value.value, str):
                continue  # docstring
            if isinstance(s, ast.Assign):
                if len(s.targets) != 1:
                    raise Unsupported(s, "multiple targets")
                t = s.targets[0]
                # prefix = self._name
                if isinstance(t, ast.Name) and isinstance(s.value, ast.Attribute) \
                        and isinstance(s.value.value, ast.Name) and s.value.value.id == "self" \
                        and s.value.attr == "_name":
                    ctx["prefix_alias"].add(t.id)
                    continue
                if isinstance(t, ast.Name):
                    v = self.expr(s.value, ctx)
                    nm = self.fresh(t.id, ctx)
                    lets.append((nm, v, ctx["last_call_arity"] if isinstance(s.value, ast.Call) else None))
                    ctx["oblig"].append(("let", nm, v))
                    ctx["vars"][t.id] = nm
                    continue
                if isinstance(t, ast.Tuple) and all(isinstance(x, ast.Name) for x in t.elts):
                    if isinstance(s.value, ast.Tuple):
                        if len(s.value.elts) != len(t.elts):
                            raise Unsupported(s, "tuple arity")
                        vals = [self.expr(x, ctx) for x in s.value.elts]
                        for x, v in zip(t.elts, vals):
                            nm = self.fresh(x.id, ctx)
                            lets.append((nm, v, None)); ctx["oblig"].append(("let", nm, v))
                        for x in t.elts:
                            ctx["vars"][x.id] = self.fresh(x.id, ctx)
                        continue
                    v = self.expr(s.value, ctx)
                    if len(t.elts) != 2:
                        raise Unsupported(s, "only pairs can be destructured")
                    tmp = f"t_{len(lets)}"
                    lets.append((tmp, v, None)); ctx["oblig"].append(("let", tmp, v))
                    for k, x in enumerate(t.elts):
                        nm = self.fresh(x.id, ctx)
                        if x.id != "_":
                            lets.append((nm, f"{tmp}.{k+1}", None)); ctx["oblig"].append(("let", nm, f"{tmp}.{k+1}"))
                            ctx["vars"][x.id] = nm
                    continue
                raise Unsupported(s, "assignment target")
            if isinstance(s, ast.AugAssign) and isinstance(s.target, ast.Name):
                fake = ast.BinOp(left=ast.Name(id=s.target.id, ctx=ast.Load()), op=s.op, right=s.value)
                ast.copy_location(fake, s)
                v = self.expr(fake, ctx)
                nm = self.fresh(s.target.id, ctx)
                lets.append((nm, v, None)); ctx["oblig"].append(("let", nm, v))
                ctx["vars"][s.target.id] = nm
                continue
            if isinstance(s, ast.Return):
                if i != len(stmts) - 1:
                    raise Unsupported(s, "early return")
                r = s.value
                if isinstance(r, ast.Dict):
                    items = []
                    for k, v in zip(r.keys, r.values):
                        items.append(f"({self.strexpr(k, ctx)}, {self.expr(v, ctx)})")
                    return lets, "[" + ", ".join(items) + "]", "dict"
                if isinstance(r, ast.Tuple):
                    return lets, self.expr(r, ctx), f"tuple{len(r.elts)}"
                return lets, self.expr(r, ctx), "scalar"
            raise Unsupported(s, f"statement {type(s).__name__}")
        raise Unsupported(stmts[-1] if stmts else None, "no return")

    def fresh(self, name, ctx):
        if name == "_":
            return "_"
        reserved = {"at", "from", "do", "then", "else", "if", "let", "fun", "in", "end", "open", "at"}
        return name + "'" if name in reserved else name

    # ------------------------------------------------------------------ functions
    def function(self, fd, src, cls=None, fields=()):
        lname = f"{cls}.{fd.name}" if cls else fd.name
        ctx = dict(classes=set(), callees=set(), oblig=[], vars={}, maps=set(), fields=set(fields),
                   used_fields=set(), prefix_alias=set(), uses_pfx=False, cls=cls, last_call_arity=None)
        is_static = any(isinstance(d, ast.Name) and d.id == "staticmethod" for d in fd.decorator_list)
        a = fd.args
        if a.vararg or a.kwarg or a.kwonlyargs or a.posonlyargs:
            raise Unsupported(fd, "argument form")
        names = [x.arg for x in a.args]
        if cls and not is_static:
            if not names or names[0] != "self":
                raise Unsupported(fd, "method without self")
            names = names[1:]
        defaults = [None] * (len(names) - len(a.defaults)) + list(a.defaults)
        params = []
        for n, d in zip(names, defaults):
            if n in MAPPARAMS:
                ctx["maps"].add(n)
                params.append((n, "String → α", None, "arg"))
            else:
                dv = None
                if d is not None:
                    if not (isinstance(d, ast.Constant) and isinstance(d.value, (int, float))):
                        raise Unsupported(d, "default value")
                    dv = lit(d.value)
                    ctx["classes"].add("OfScientific")
                ctx["vars"][n] = self.fresh(n, ctx)
                params.append((self.fresh(n, ctx), "α", dv, "arg"))
        lets, ret, rkind = self.body(fd.body, ctx)
        pre = []
        if ctx["uses_pfx"]:
            pre.append(("pfx", "String", None, "pfx"))
        for fld in fields:
            if fld in ctx["used_fields"]:
                pre.append((fld, "α", None, "field"))
        params = pre + params
        rettype = {"dict": "List (String × α)", "scalar": "α"}.get(rkind)
        if rettype is None:
            n = int(rkind[5:])
            rettype = " × ".join(["α"] * n)
            self.tuple_arity[lname] = n
        body = ""
        for (nm, v, _) in lets:
            body += f"  let {nm} := {v}\n"
        body += f"  {ret}\n"
        fn = Fn(lname, params, rettype, body, ctx["oblig"], ctx["classes"], ctx["callees"], src,
                fd.lineno, fd.name)
        self.fns[lname] = fn
        self.order.append(lname)
        return fn

    def init_fields(self, cd, src):
        """translate `self.X = expr` in __init__ into Cls.init_X; collect dict tables."""
        init = next((s for s in cd.body if isinstance(s, ast.FunctionDef) and s.name == "__init__"), None)
        cls = cd.name
        fields = []
        if init is None:
            base = self.class_bases.get(cls)
            self.class_fields[cls] = list(self.class_fields.get(base, []))
            return
        argnames = [x.arg for x in init.args.args][1:]
        base = self.class_bases.get(cls)
        for s in init.body:
            # super().__init__(args) with inherited fields
            if isinstance(s, ast.Expr) and isinstance(s.value, ast.Call) and isinstance(s.value.func, ast.Attribute) \
                    and s.value.func.attr == "__init__" and base in self.class_fields and self.class_fields[base]:
                cargs = s.value.args
                for fld in self.class_fields[base]:
                    bfn = self.fns.get(f"{base}.init_{fld}")
                    if bfn is None:
                        continue
                    ctx = dict(classes=set(), callees=set(), oblig=[], vars={n: n for n in argnames}, maps=set(),
                               fields=set(), used_fields=set(), prefix_alias=set(), uses_pfx=False, cls=cls,
                               last_call_arity=None)
                    try:
                        al = [self.expr(x, ctx) for x in cargs]
                        ln = f"{cls}.init_{fld}"
                        params = [(n, "α", None, "arg") for n in argnames]
                        ctx["callees"].add(bfn.lname)
                        body = "  (" + " ".join([bfn.lname] + al) + ")\n"
                        self.fns[ln] = Fn(ln, params, "α", body, [("call", bfn.lname, al)], ctx["classes"],
                                          ctx["callees"], src, s.lineno, f"{cls}.__init__")
                        self.order.append(ln)
                        fields.append(fld)
                    except Unsupported as u:
                        self.failures.append((f"{cls}.__init__", src, u.node.lineno if u.node else 0, u.msg))
                continue
            if isinstance(s, ast.Assign) and len(s.targets) == 1 and isinstance(s.targets[0], ast.Attribute) \
                    and isinstance(s.targets[0].value, ast.Name) and s.targets[0].value.id == "self":
                attr = s.targets[0].attr
                if attr in DICT_ATTRS and isinstance(s.value, ast.Dict):
                    ctx = dict(classes=set(), prefix_alias={"prefix"}, uses_pfx=False, vars={}, maps=set(), fields=set(),
                               used_fields=set(), callees=set(), oblig=[], cls=cls, last_call_arity=None)
                    try:
                        ents = [(self.strexpr(k, ctx), self.expr(v, ctx)) for k, v in zip(s.value.keys, s.value.values)]
                        self.tables.append((f"{cls}.{attr}", "dict", ents, src, s.lineno, set(ctx["classes"])))
                    except Unsupported as u:
                        self.failures.append((f"{cls}.{attr}", src, s.lineno, u.msg))
                elif attr in STR_ATTRS:
                    ctx = dict(classes=set(), prefix_alias={"prefix"}, uses_pfx=False)
                    try:
                        self.tables.append((f"{cls}.{attr}", "str", self.strexpr(s.value, ctx), src, s.lineno, set()))
                    except Unsupported as u:
                        self.failures.append((f"{cls}.{attr}", src, s.lineno, u.msg))
                elif not attr.startswith("_") and attr not in ("current_is_in_mA_per_cm2", "transforms", "mask",
                                                                "transform", "forward_fn", "inverse_fn", "tf_dict"):
                    ctx = dict(classes=set(), callees=set(), oblig=[], vars={n: n for n in argnames}, maps=set(),
                               fields=set(), used_fields=set(), prefix_alias=set(), uses_pfx=False, cls=cls,
                               last_call_arity=None)
                    try:
                        v = self.expr(s.value, ctx)
                        ln = f"{cls}.init_{attr}"
                        params = [(n, "α", None, "arg") for n in argnames]
                        self.fns[ln] = Fn(ln, params, "α", f"  {v}\n", ctx["oblig"], ctx["classes"], ctx["callees"],
                                          src, s.lineno, f"{cls}.__init__")
                        self.order.append(ln)
                        fields.append(attr)
                    except Unsupported as u:
                        self.failures.append((f"{cls}.init_{attr}", src, s.lineno, u.msg))
        self.class_fields[cls] = fields

    # ------------------------------------------------------------------ driver
    def run(self):
        hashes = {}
        for rel, kind, required in SOURCES:
            path = os.path.join(REPO, rel)
            try:
                text = open(path).read()
                tree = ast.parse(text)
            except (OSError, SyntaxError) as ex:
                for r in required:
                    self.failures.append((r, rel, 0, f"cannot parse: {ex}"))
                continue
            hashes[rel] = hashlib.sha256(text.encode()).hexdigest()
            # module-level functions (in source order; helper functions defined after use are
            # handled by a second pass)
            funcs = [s for s in tree.body if isinstance(s, ast.FunctionDef)]
            classes = [s for s in tree.body if isinstance(s, ast.ClassDef)]
            pending = [f for f in funcs if (f.name in required or kind == "funcs" and f.name in required)]
            # translate required + any helper they call (fixpoint over "call to unknown name")
            todo = list(pending)
            helpers = {f.name: f for f in funcs}
            done = set()
            progress = True
            errors = {}
            while todo and progress:
                progress = False
                for f in list(todo):
                    try:
                        self.function(f, rel)
                        self.module_funcs[f.name] = f.name
                        todo.remove(f); done.add(f.name); progress = True
                        errors.pop(f.name, None)
                    except Unsupported as u:
                        errors[f.name] = u
                        # maybe it needs a helper of this module
                        if u.msg.startswith("call to ") and u.msg[8:] in helpers and u.msg[8:] not in done \
                                and helpers[u.msg[8:]] not in todo:
                            todo.insert(0, helpers[u.msg[8:]]); progress = True
            for f in todo:
                u = errors[f.name]
                self.failures.append((f.name, rel, getattr(u.node, "lineno", 0), u.msg))
            if kind == "both":
                for cd in classes:
                    if cd.name not in required:
                        continue
                    b = [x.id for x in cd.bases if isinstance(x, ast.Name)]
                    self.class_bases[cd.name] = b[0] if b else None
                    self.init_fields(cd, rel)
                    fields = self.class_fields.get(cd.name, [])
                    meths = [s for s in cd.body if isinstance(s, ast.FunctionDef)]
                    gates = [m for m in meths if m.name.endswith("_gate")]
                    others = [m for m in meths if m.name in METHODS]
                    for m in gates + others:
                        try:
                            self.function(m, rel, cls=cd.name, fields=fields)
                        except Unsupported as u:
                            self.failures.append((f"{cd.name}.{m.name}", rel, getattr(u.node, "lineno", 0), u.msg))
                for r in required:
                    if r not in done and not any(cd.name == r for cd in classes):
                        if not any(fl[0] == r for fl in self.failures):
                            self.failures.append((r, rel, 0, "definition not found"))
            else:
                for r in required:
                    if r not in done and not any(fl[0] == r for fl in self.failures):
                        self.failures.append((r, rel, 0, "definition not found"))
        return hashes

    # ------------------------------------------------------------------ emission
    def closure(self, fn, key):
        seen, out, stack = set(), set(getattr(fn, key)), list(fn.callees)
        while stack:
            c = stack.pop()
            if c in seen or c not in self.fns:
                continue
            seen.add(c)
            out |= getattr(self.fns[c], key)
            stack += list(self.fns[c].callees)
        return out

    def binders(self, classes):
        s = "{α : Type}"
        for c in ALLCLS:
            if c in classes:
                s += f" [{c} α]"
        return s

    def emit_defined(self, fn):
        """f.Defined: conjunction of obligations along the let-chain."""
        lines = []
        classes = self.closure(fn, "classes") | {"OfScientific"}
        conj = []
        for ob in fn.defined:
            if ob[0] == "let":
                lines.append(("let", ob[1], ob[2]))
            elif ob[0] == "ne0":
                lines.append(("p", f"{ob[1]} ≠ (0.0 : α)"))
            elif ob[0] == "pos":
                classes.add("LT"); lines.append(("p", f"(0.0 : α) < {ob[1]}"))
            elif ob[0] == "gtm1":
                classes.add("LT"); classes.add("Neg"); lines.append(("p", f"(-1.0 : α) < {ob[1]}"))
            elif ob[0] == "call":
                callee = self.fns[ob[1]]
                if callee.has_defined:
                    lines.append(("p", "(" + " ".join([ob[1] + ".Defined"] + ob[2]) + ")"))
                    classes |= callee.defined_classes
        fn.has_defined = any(l[0] == "p" for l in lines)
        fn.defined_classes = classes
        if not fn.has_defined:
            return ""
        # obligations must appear before the lets that shadow variables they mention: emission keeps
        # the statement order (obligation recorded when its expression was translated, i.e. before the
        # `let` of the statement it belongs to).
        s = f"def {fn.lname}.Defined {self.binders(classes)}"
        for (pn, pt, dflt, kind) in fn.params:
            s += f" ({pn} : {pt})" if dflt is None else f" ({pn} : {pt} := {dflt})"
        s += " : Prop :=\n"
        # drop trailing lets
        while lines and lines[-1][0] == "let":
            lines.pop()
        n_open = 0
        for i, l in enumerate(lines):
            last = i == len(lines) - 1
            if l[0] == "let":
                s += f"  let {l[1]} := {l[2]}\n"
            else:
                s += f"  {l[1]}" + ("\n" if last else " ∧\n")
        return s + "\n"

    def emit(self, hashes):
        out = []
        out.append("/- GENERATED by tools/py2lean.py from the current working tree of the repository.\n"
                   "   DO NOT EDIT: regenerated on every check. -/\n")
        out.append("import JaxleyVerif.Prelude.Scalar\n")
        out.append("set_option linter.unusedVariables false\n")
        out.append("namespace JaxleyVerif.Gen\nopen JaxleyVerif\n")
        for ln in self.order:
            fn = self.fns[ln]
            classes = self.closure(fn, "classes")
            s = f"/-- `{fn.pyname}` — {fn.src}:{fn.lineno} -/\n"
            s += f"def {fn.lname} {self.binders(classes)}"
            for (pn, pt, dflt, kind) in fn.params:
                s += f" ({pn} : {pt})" if dflt is None else f" ({pn} : {pt} := {dflt})"
            s += f" : {fn.rettype} :=\n{fn.body}\n"
            out.append(s)
            out.append(self.emit_defined(fn))
        for (name, kind, ents, src, lineno, classes) in self.tables:
            if kind == "dict":
                s = f"/-- `{name}` — {src}:{lineno} -/\n"
                s += f"def {name} {self.binders(classes | {'OfScientific'})} (pfx : String) : List (String × α) :=\n  ["
                s += ", ".join(f"({k}, {v})" for k, v in ents) + "]\n\n"
            else:
                s = f"/-- `{name}` — {src}:{lineno} -/\ndef {name} (pfx : String) : String := {ents}\n\n"
            out.append(s)
        out.append("end JaxleyVerif.Gen\n")
        return "\n".join(out)


def emit_dispatch(t):
    """Gen/Dispatch.lean: name-indexed evaluation of every generated kernel over Float and (where no
    transcendental is involved) over Rat, for the line-protocol driver."""
    out = ["/- GENERATED by tools/py2lean.py. DO NOT EDIT. -/", "import JaxleyVerif.Gen.Kernels", "",
           "namespace JaxleyVerif.Gen", "open JaxleyVerif", ""]
    for ty, pred in (("Float", lambda c: True), ("Rat", lambda c: "Transc" not in c)):
        out.append(f"def dispatch{ty} (name : String) (pfx : String) (a : Array {ty}) "
                   f"(states params : String → {ty}) : Option (List (String × {ty})) :=")
        out.append("  match name with")
        for ln in t.order:
            fn = t.fns[ln]
            if not pred(t.closure(fn, "classes")):
                continue
            args, i = [], 0
            for (pn, pt, dflt, kind) in fn.params:
                if kind == "pfx":
                    args.append("pfx")
                elif pt.startswith("String"):
                    args.append(pn if pn in ("states", "params") else "states")
                else:
                    args.append(f"(a.getD {i} 0)"); i += 1
            call = "(" + " ".join([ln] + args) + ")"
            if fn.rettype == "α":
                r = f'[("", {call})]'
            elif fn.rettype.startswith("List"):
                r = call
            else:
                n = fn.rettype.count("×") + 1
                if n == 2:
                    r = f'[("0", {call}.1), ("1", {call}.2)]'
                else:
                    r = None
            if r is None:
                continue
            out.append(f'  | "{ln}" => if a.size < {sum(1 for p in fn.params if p[3] != "pfx" and not p[1].startswith("String") and p[2] is None)} then none else some {r}')
        for (name, kind, ents, src, lineno, classes) in t.tables:
            if kind == "dict":
                out.append(f'  | "{name}" => some ({name} pfx)')
        out.append("  | _ => none")
        out.append("")
    out.append("def dispatchStr (name : String) (pfx : String) : Option String :=")
    out.append("  match name with")
    for (name, kind, ents, src, lineno, classes) in t.tables:
        if kind == "str":
            out.append(f'  | "{name}" => some ({name} pfx)')
    out.append("  | _ => none")
    out.append("")
    out.append("def kernelNames : List String := [" + ", ".join(f'"{n}"' for n in t.order) + "]")
    out.append("")
    out.append("end JaxleyVerif.Gen")
    return "\n".join(out) + "\n"


def main():
    outdir = os.path.join(os.path.dirname(os.path.abspath(__file__)), "..", "lean", "JaxleyVerif", "Gen")
    outdir = os.path.normpath(outdir)
    check_only = "--check" in sys.argv
    t = Translator()
    hashes = t.run()
    text = t.emit(hashes)
    man = dict(
        repo=REPO, source_sha256=hashes,
        functions=[dict(lean=f.lname, python=f.pyname, file=f.src, line=f.lineno,
                        defined=bool(getattr(f, "has_defined", False))) for f in (t.fns[n] for n in t.order)],
        tables=[dict(lean=n, file=src, line=ln) for (n, k, e, src, ln, c) in t.tables],
        failures=[dict(name=n, file=f, line=l, msg=m) for (n, f, l, m) in t.failures],
    )
    os.makedirs(outdir, exist_ok=True)
    target = os.path.join(outdir, "Kernels.lean")
    old = open(target).read() if os.path.exists(target) else None
    changed = old != text
    if changed and not check_only:
        with open(target, "w") as fh:
            fh.write(text)
    dtext = emit_dispatch(t)
    dtarget = os.path.join(outdir, "Dispatch.lean")
    if not check_only and (not os.path.exists(dtarget) or open(dtarget).read() != dtext):
        with open(dtarget, "w") as fh:
            fh.write(dtext)
    if "--freeze" in sys.argv:
        with open(os.path.join(outdir, "Kernels.baseline"), "w") as fh:
            fh.write(text)
        with open(os.path.join(outdir, "Dispatch.baseline"), "w") as fh:
            fh.write(dtext)
    mt = os.path.join(outdir, "manifest.json")
    mtext = json.dumps(man, indent=1, sort_keys=True)
    if not check_only and (not os.path.exists(mt) or open(mt).read() != mtext):
        with open(mt, "w") as fh:
            fh.write(mtext)
    print(json.dumps(dict(changed=changed, functions=len(t.order), tables=len(t.tables),
                          failures=man["failures"])))
    return 3 if t.failures else 0


if __name__ == "__main__":
    sys.exit(main())
