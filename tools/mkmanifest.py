#!/usr/bin/env python3
"""Writes MANIFEST.json from the table below (single source of truth for the registered checks)."""
import json, os
ROOT = os.path.dirname(os.path.dirname(os.path.abspath(__file__)))

TRUST = ("Trusted: Lean 4.33 kernel; axioms ⊆ {propext, Classical.choice, Quot.sound} (audited by #print axioms on every "
         "run); the translator tools/py2lean.py; the harness and the driver's parser. ")

CHECKS = {
 "C03": dict(cat="proof", ref="DESIGN.md §4 C03",
   technique="Lean 4 theorems over ℝ about kernels re-translated from the Python source on every run + Float correspondence",
   text="For every built-in gate: theorems over ℝ (all v, all dt>0, all x in [0,1]) that the generated update_states returns exactly "
        "the listed keys, each value equal to the closed-form solution, inside [0,1], moved toward-not-past the steady state, under "
        "the exact non-singularity condition; the singular sets are characterised exactly (…_defined_iff). The float layer is "
        "sampled: model vs implementation, Spec predicate on the implementation's outputs, singular points and their ulp "
        "neighbours enumerated.",
   note=TRUST + "IEEE rounding and XLA's exp are sampled, not proved. Known finding F4 (NaN at removable singularities) is "
        "excluded by the theorems' hypotheses and replayed on every run."),
 "C04": dict(cat="proof", ref="DESIGN.md §4 C04",
   technique="Lean 4 equality theorems Gen.f = Spec.f (published formulas) on the unclipped region + Float comparison with the Spec",
   text="Every rate/steady-state/time-constant function and every current of HH, Leak, Na, K, Km, CaL, CaT, IonotropicSynapse as "
        "re-translated from the source equals the formula typed in from the publication, for all voltages/parameters on the "
        "explicitly stated region where save_exp does not clip; default tables equal the documented ones; renaming theorems for "
        "every channel. The implementation is compared with the Spec in Float on grids and random inputs.",
   note=TRUST + "Spec/Published.lean is a hand transcription of the papers. Known finding N4: CaT tau_u deviates where the clip "
        "is active inside the domain (theorem CaT_tau_u_clip_active); sub-1e-6 ms^-1 clip artefacts of Na/K/CaL rates below "
        "-103 mV are within the stated tolerance."),
 "C14": dict(cat="proof", ref="DESIGN.md §4 C14 + §B.8",
   technique="Lean 4 fixed-point theorems about the re-translated init_state/update_states kernels, lifted to a model of Module.init_states (frame, idempotence, steady state per row) + table-by-table correspondence with the implementation",
   text="For HH, Na, K, CaL, Km, CaT (any name prefix): the generated init_state returns exactly the channel's state keys and any state "
        "holding these values is returned unchanged by the generated update_states at the same voltage/parameters for every dt>0 "
        "(theorems over ℝ under the exact non-singularity conditions); the steady state is the unique fixed point. Module.init_states is "
        "modelled (Model/InitStates.lean: snapshot taken once, channels in module order, only returned keys, only member rows) and proved: "
        "rows without a channel, voltages and parameters are untouched (module_init_states_frame), a second call changes nothing for every "
        "module made of built-in channels (module_init_states_idempotent), and in every row where an HH-type channel is inserted one "
        "update_states returns exactly the values init_states wrote (module_init_states_HH_steady). The model, with the generated kernels "
        "dispatched by name, is run next to the real init_states on random cells with partial / renamed / duplicated insertions, per-"
        "compartment parameters, shared and distinct voltages, first and repeated calls, and every state column is compared.",
   note=TRUST + "pandas row selection is restated in the model (tied by the table comparison). Known finding F4b: NaN at the removable "
        "singularities."),
 "C17": dict(cat="proof", ref="DESIGN.md §4 C17",
   technique="Lean 4 theorems over ℝ on re-translated transforms (incl. constructor fields) + hand-modelled combinators; Float/jit correspondence",
   text="Sigmoid/Softplus/NegSoftplus/Affine: bounds for all real x, monotonicity (strict on the unclipped region), both round trips "
        "on the exactly stated unclipped regions, with proved counterexamples beyond the clip; ChainTransform (fold), "
        "MaskedTransform (where), ParamTransform (zipWith) round-trip/frame/pointwise theorems on the hand model. The real "
        "transforms are run eagerly and under jit on clip thresholds, random doubles in [-1e6,1e6], random bounds, chains, "
        "masks and pytrees and compared with the model and with the Spec predicate (bounds, monotone, conditioning-aware round trip).",
   note=TRUST + "Combinators are hand-modelled (tied by correspondence). Rounding is sampled. Known findings F11 (round trips saturate "
        "beyond the clip) and N6 (softplus inverse cancellation); N5 (NegSoftplus bound sign) was fixed."),
 "C01": dict(cat="proof", ref="DESIGN.md §4 C01 + §B.8",
   technique="Lean 4: the whole custom solver (array assembly, level-scheduled triangulation / back substitution, read-back) proved to return the unique solution of the implicit-Euler cable system for every well-formed schedule and edge table; Hines correctness, maximum principle, kernel = physics identities; exact-rational correspondence on the arrays, schedules and edge tables captured from the real code",
   text="Proved for all inputs (no bound on branches, levels, padding): (1) Model.SolveJaxley.solve - the code-shaped model of _triang_branched / "
        "_backsub_branched with tridiax's Thomas rows - returns a solution of the system its ten input arrays denote, and the only one "
        "(custom_solver_correct, custom_solver_unique), for every structurally well-formed indexer + level schedule (wfB, a decidable "
        "predicate) and non-vanishing pivots; (2) for cable-like arrays (strictly dominant compartment rows, weighted Kirchhoff branch-point "
        "rows) the pivot hypothesis is a theorem (custom_solver_pivots_of_dominant); (3) Model.AssembleJaxley.assembleJ - the array assembly of "
        "step_voltage_implicit_with_jaxley_spsolve, statement by statement - produces arrays that denote the physical edge-list system "
        "(jaxley_arrays_denote_physical_system, the matrix the jax.sparse backend builds) and are cable-like for dt>0, positive conductances "
        "(jaxley_arrays_dominant); hence (4) jaxley_backend_exact: assembly + solve + read-back return THE solution of the implicit-Euler cable "
        "system. Also: abstract Hines correctness and pivot positivity on arbitrary trees, uniqueness by a discrete maximum principle on any "
        "finite node set, the re-translated conductance kernels equal cable physics with explicit unit factors, Crank-Nicolson as implemented is "
        "the trapezoidal rule. Tie, on every run: the arrays, indexer, schedule and the keyword arguments of the assembly are CAPTURED from an "
        "eager step of the real code; the driver evaluates the theorems' hypotheses on them (wf=, ewf=, piv=) and their conclusions in exact "
        "rational arithmetic (sat=, phys=), compares the model's assembled arrays and solves array with the implementation's (<= 1e-12 / 1e-9), "
        "and checks the implementation's voltages for all 7 (solver, backend) pairs against the physics Spec by exact backward error. A "
        "regression corpus (F1, N3, N7, N15 morphologies, non-topological labelings, networks of unequal depth and of unbranched cells of "
        "different size) runs first in every tier.",
   note=TRUST + "Not proved: floating-point rounding (measured as backward error); tridiax.stone and jax spsolve (exercised, compared); that "
        "Cell/Network._init_morph_* always produce well-formed tables (wfB / edgesWfB are evaluated on every captured case instead); forward Euler "
        "and the sparse backend are covered by the correspondence with Model.Cable. Fixed: F1, N3, N7, N15 (forward Euler on networks of "
        "unbranched cells of different size)."),
 "C02": dict(cat="proof", ref="DESIGN.md §4 C02",
   technique="Lean 4: charge balance, maximum/minimum principle, reciprocity for symmetric cable systems on any finite node set; predicates evaluated on implementation outputs",
   text="Theorems for every admissible symmetric system: total charge balance, no overshoot for every dt>0 (max/min principle incl. "
        "zero-capacitance branch-point rows), uniform rest stays uniform, reciprocity of point responses; the symmetry of the "
        "implementation's couplings after capacitance scaling is a theorem about the re-translated kernels. The predicates are evaluated "
        "on the implementation's one-step outputs for dt in {1e-3..1e9}, all backends, all ordered pairs (i,j) of small cells.",
   note=TRUST + "The transport of the theorems to the implementation's matrix rests on C01's correspondence. Rounding: 1e-9 relative slack."),
 "C12": dict(cat="proof", ref="DESIGN.md §4 C12",
   technique="Lean 4: block-diagonal independence and permutation equivariance via uniqueness of the cable system; table-concatenation model; implementation tables and full runs",
   text="Theorems: in a system without cross coupling the restriction of the joint solution to a cell is the cell's own solution "
        "(any two finite node sets); re-ordering nodes permutes rows and solution and nothing else; concatenating constituent tables "
        "keeps every row under contiguous indices. The implementation is checked on random heterogeneous compartments -> branches -> "
        "cells -> networks: every constituent row's parameters/states/channel flags survive, absent channels stay absent; a synapse-free "
        "network simulates each cell as alone, one-branch cell = branch, one-compartment branch = compartment; sibling/cell permutations "
        "permute results; all accepting backends. At the whole-simulation model (Props/C12_Sim.lean): the channel part of a step is row-wise (sim_mech_rowwise_states / _terms), the voltage update of a synapse-free module is computed cell by cell (sim_step_v_blocks) and the block of cell k depends only on cell k's rows, geometry and stimuli (sim_step_cell_independent); assembled networks must simulate their tables (Lean model run from nodes / branch structure only), also when the constituents carry the same mechanisms inserted in a different order.",
   note=TRUST + "Mechanisms act row-wise by construction of the generated kernels; whole-run equality is measured (1e-8 relative). "
        "Refusals of the jaxley backends for networks of differently shaped cells are allowed."),
 "C15": dict(cat="other", ref="DESIGN.md §4 C15",
   technique="Lean 4 theorems on amplification factors, order bounds and discrete eigenmodes + measured refinement ladders on the real code",
   text="Proved: steady state of one compartment under constant current (fixes units), exact amplification factors of backward Euler and "
        "Crank-Nicolson, local errors O(h^2)/O(h^3) against exp(-h), global first/second order bounds, cosine modes are eigenvectors of "
        "the sealed compartmental axial operator for every N with second-order accurate eigenvalues. Measured on every run: ladders "
        "dt0/2^k and ncomp n0*2^k on the real code (all backends) against RC relaxation and the sealed-cable Green's function; observed "
        "orders must be 1/2/2 and time errors below the proved bounds.",
   note=TRUST + "A limit statement for arbitrary (non-uniform, branched) geometries is not proved; the ladders are finite. Partial."),
 "C06": dict(cat="proof", ref="DESIGN.md §4 C06",
   technique="Lean 4: nested checkpoint scan = flat scan for every layout/depth, recordings invariant under padding (core Lean, induction over the list of lengths); jit/vmap/purity measured on the implementation",
   text="Theorems for every step function, state, input list and every list of positive lengths of any depth: the model of "
        "_inner_nested_scan equals the flat scan; integrate's recordings are the same for every checkpoint layout whose product "
        "covers the run; column k is the recorded state after k steps. The real nested_checkpoint_scan is compared exactly (int64) "
        "with the model; integrate is run eagerly, under jit, under vmap over stimuli and parameters and with random layouts; the "
        "module is snapshotted before/after and repeated calls must be bit-identical.",
   note=TRUST + "jit, vmap, XLA fusion and Python aliasing are runtime behaviour: measured (1e-9 / bit-identical / snapshot equality), not proved."),
 "C07": dict(cat="proof", ref="DESIGN.md §4 C07",
   technique="Lean 4: fold/scan composition theorems (append, split, manual stepping, returned state under masked padding) + implementation runs",
   text="Theorems on the model of integrate's time axis: a run over xs++ys equals chained runs through the returned state; any "
        "partition into consecutive calls equals the flat run; stepping manually reproduces every column; the returned state is the "
        "state at the last returned time point for EVERY layout with sufficient product (padding steps are masked). The implementation "
        "is run on random cells/networks with all solver x backend pairs, random 2-3-way splits, manual stepping with "
        "build_init_and_step_fn and exact/padded checkpoint layouts; states and recordings compared to 1e-8.",
   note=TRUST + "Float runs compared to 1e-8. F6 (state returned after padded steps) was fixed in jaxley/integrate.py; the model follows the fixed code."),
 "C11": dict(cat="proof", ref="DESIGN.md §4 C11",
   technique="Lean 4 theorems on a hand model of the view machinery (filters, dense ranks, edges, lazy indexing) + step-by-step correspondence with the implementation on random selection chains",
   text="Model of _reformat_index, _at_nodes/_at_edges, select, scope, loc, group/channel/synapse views, _set_inds_in_view, "
        "_update_local_indices, __getitem__ and iteration. Theorems: a selection is a filter of the parent view by the scope's index "
        "column (so chains are iterated filters and rows form a sub-list of the parent's), local indices are dense ranks (bounded, "
        "strictly monotone, onto 0..k-1; same local index iff same global index), edges in view iff both ends selected and in the "
        "parent view, [] indexing and iteration are the method chain by definition, channel views are exact when the channel is in view. "
        "Correspondence: after every step of random chains (all index forms, both scopes, scope switches) nodes-in-view, edges-in-view "
        "and the three local index columns agree; mutators through views touch exactly the rows in view.",
   note=TRUST + "The model is hand-written; pandas/numpy primitives (isin, rank(method='dense'), unique, intersect1d, digitize) are restated in it. "
        "Known finding N8 (channel/synapse view of a view without that channel returns the whole view); N2 (loc('all')) was fixed."),
 "C20": dict(cat="proof", ref="DESIGN.md §4 C20",
   technique="Lean 4 theorems on the builders' index arithmetic for every sampling outcome + recorded-draw correspondence with the real builders",
   text="Model with the sampler's outcome as an argument. Theorems for all population sizes and all draws: synapse number a*npost+b of "
        "fully_connect goes from the site of pre cell a to the a-th sample of post cell b (so exactly one synapse per pair, equal or "
        "unequal sizes); np.where enumerates exactly the True entries without repetition; matrix/sparse builders create one synapse "
        "per entry / drawn pair for every count incl. 0 and 1, starting at the drawn pre cell's site. The real builders are run with the "
        "pandas/numpy samplers wrapped (draws recorded), edges compared with the model, and pair sets, sites, row indices, types and "
        "locs checked on the implementation, with the binomial forced to 0, 1, 2.",
   note=TRUST + "pandas groupby(...).sample ordering (post-cell major) is observed, not proved. Fixed: F7, F8, N9."),
 "C10": dict(cat="proof", ref="DESIGN.md §4 C10",
   technique="Lean 4 theorems on the scatter model (frame, padding, order) + bit-exact correspondence of index groups and scattered arrays",
   text="Theorems for every array, index groups and values: a scatter with disjoint groups gives row i the value of its group and leaves "
        "every other row untouched; padding unequal groups with the out-of-bounds index changes nothing; scattering one group with one "
        "value equals writing that value to exactly these rows (set = data_set = trainable); later pstate entries win, earlier ones "
        "survive elsewhere. On the implementation: make_trainable's index arrays equal the model's padded groups, get_all_parameters/"
        "get_all_states arrays equal the model's bit for bit, set changes exactly the in-view rows holding the key, the three routes "
        "give identical arrays (node, channel, initial-state and edge keys), write_trainables stores the simulated arrays.",
   note=TRUST + "JAX scatter semantics (out-of-bounds dropped, rows in order) restated in the model. Simulation equality follows from array equality. F2 fixed."),
 "C08": dict(cat="proof", ref="DESIGN.md §4 C08",
   technique="Lean 4 theorems on the time axis, record ordering, scatter_add, clamp writes and t_max padding + implementation runs against independent manual stepping and against the executable Lean model of a whole simulation",
   text="Theorems: the returned matrix has the initial state in column 0 and the state after k steps in column k, rows in first-call order "
        "(dedup keeps existing rows in place); sample k of an input is consumed by step k+1 only; several stimuli on one compartment "
        "add; a clamped voltage equals its clamp sample after the step because the write follows the solve (setAt_get for distinct "
        "indices); t_max pads stimuli with zeros / truncates; step_current has its amplitude exactly on [ws,we). On the implementation "
        "(cells and networks with 2-3 interleaved synapse types): every row equals the independently stepped trajectory of exactly the "
        "requested compartment/synapse, impulse timing, additivity, clamps of v / gates / synaptic states, t_max handling, short-clamp "
        "refusal, data_stimulate/data_clamp equivalence; and the recorded traces of modules with scrambled stimuli and clamps of v, gates and "
        "synaptic states equal those of the Lean model of a WHOLE simulation (Model/Sim.lean: Module.step with the generated channel and "
        "synapse kernels, the cable solve, externals, clamps, recording gather) that is driven only by the module's tables. The generic "
        "theorems are instantiated at that model (Props/C08_Sim.lean): column k of recording j of Sim.integrate is the requested entry of the "
        "state after k steps, the state after k steps depends only on the first k input samples, a longer run has the shorter run as prefix, "
        "runs split and compose with the returned state, checkpoint layouts do not change recordings or returned state, the last voltage / "
        "state clamp of a step holds afterwards, the solve of a network is cell-wise.",
   note=TRUST + "I nA -> I*dt of charge is C01.stim_conversion + C02.charge_balance. Fixed: F5 (synaptic state indexing), N1."),
 "C09": dict(cat="proof", ref="DESIGN.md §4 C09",
   technique="Lean 4 theorems on the synaptic-term model (sum over incoming edges, locality, permutation invariance, exact secant) + closed-form one-step oracle on the implementation",
   text="Theorems over R: the terms handed to the solver for compartment c are the sums over exactly the edges with post = c (none "
        "elsewhere), an edge reads v only at its pre and post compartment, the secant linearisation reproduces a current affine in the "
        "post voltage exactly, any permutation of the edge list leaves every compartment's terms unchanged, vanishing currents give "
        "vanishing terms. On the implementation: networks of point neurons with random edge multisets (autapses, fan-in, 3 interleaved "
        "types) must match an independently computed closed-form step (state update with the PRE voltage, conversion with the POST "
        "area, implicit treatment); creation-order invariance; locality; zero-conductance isolation on irregular cells; edge / type "
        "views set exactly the selected synapses. At the whole-simulation model (Props/C09_Sim.lean): the synaptic terms handed to the solver for compartment c are the accumulation over exactly the edges whose listed post is c (sim_syn_terms_eq / _local / _none), the new state of an edge reads only its own row and the voltages of its listed pre and post compartments, a module without synapses gets zero synaptic terms; the real integrate of random point-neuron networks is compared with that model run from the edge table.",
   note=TRUST + "Closed form compared to 1e-7. Fixed: N12 (joint perturbation of pre and post voltage), F5."),
 "C19": dict(cat="proof", ref="DESIGN.md §4 C19",
   technique="Lean 4: pure state machine of the editing API with invariant preserved by every operation (induction over histories) + alpha-refinement checked after every operation",
   text="Model.Ops is a pure state machine for insert, delete_channel, set, add_to_group, record, delete_recordings, stimulate/clamp, "
        "delete_stimuli/clamps, make_trainable, delete_trainables, connect. Theorems: the consistency invariant (column lengths, "
        "recordings/inputs/groups/edges refer to existing rows) holds initially, is preserved by every operation and hence after "
        "every accepted history (wf_reachable, induction over the operation list); deletions remove exactly their insertions and "
        "leave other entries untouched. Refinement: for random histories on irregular cells and networks the abstraction "
        "alpha(module) equals the model state after EVERY operation and rejections coincide; afterwards the invariant of the "
        "property statement is evaluated on the real tables, integrate must run, insert;delete must restore the tables, and 'simulates its "
        "tables' is decided by the executable Lean model of a whole simulation (Model/Sim.lean) that reads ONLY the tables the history left "
        "behind (nodes, edges, recordings, externals, branch structure): its recordings must equal those of jx.integrate.",
   note=TRUST + "set_ncomp and init_states are not in the modelled alphabet (set_ncomp is C13, init_states C14). make_trainable groups are taken from "
        "the implementation (their construction is C10). Fixed: F10/N11 (delete_channel), N10 (delete_clamps on edges), N13/N13b (delete_channel left recordings / clamps of the deleted channel's states behind; the model follows the fixed code and the stronger invariant NoDangling - every recording and input refers to an existing state - is proved for every reachable state: noDangling_reachable)."),
 "C13": dict(cat="proof", ref="DESIGN.md §4 C13",
   technique="Lean 4 theorems on a table-level model of set_ncomp (length, frame, equality with direct construction, group remapping) + implementation compared with directly built modules",
   text="Theorems over any field of characteristic 0: the new rows of the branch have the old total length; rows of other branches are "
        "unchanged and keep their order; the result consists of pre ++ n uniform rows ++ post; set_ncomp on a directly built table equals "
        "the table built directly with n compartments in that branch (general position); the remapped groups touch exactly the "
        "branches they touched before. On the implementation: random hand-built cells with channels and groups and random SWC cells, "
        "sequences of calls on different branches: length, frame, parents, group membership, tables and solver index structures equal "
        "to the directly built module, simulations equal on all three backends, SWC radii equal to read_swc(ncomp=n), guards refuse.",
   note=TRUST + "The pandas row surgery is hand-modelled (tied by the table comparison with direct construction). Fixed: F9 (groups), N14 (guards)."),
 "C18": dict(cat="other", ref="DESIGN.md §4 C18",
   technique="correspondence against the value-semantics Lean state machine (alpha equality, independence under further histories) + simulation/gradient equality; no theorem about pickle",
   text="Pickle and deepcopy are runtime facilities; no theorem speaks about them. The technique contributes the abstract state and the "
        "pure state machine (C19): in the model a copy is the value. For random editing histories h: alpha(pickle copy) = alpha(deepcopy) "
        "= alpha(original) = model(h); integrate outputs and jax.grad agree; a second history applied to the copy only leaves "
        "alpha(original) = model(h) and gives alpha(copy) = model(h ++ h2); SWC cells keep xyzr and their radius functions (set_ncomp after "
        "the round trip gives the same radii) and remain independent.",
   note="Everything about pickle/deepcopy is measured, not proved. " + TRUST),
 "C05": dict(cat="other", ref="DESIGN.md §4 C05",
   technique="Lean 4: forward-mode (dual number) evaluation computes the derivative for the kernels' expression language; the Lean cable model run over dual numbers vs jax.grad vs Richardson finite differences",
   text="jax.grad is a runtime program transformation: its correctness is trusted. Proved: evaluating an expression of the language in "
        "which the kernels are written (+,-,*,/,neg,exp,log,tanh) over the SAME dual-number arithmetic the executable model uses yields "
        "the value and HasDerivAt-derivative wherever defined; the tangent is linear in the seed; dual division returns the derivative "
        "of the implicit solve (A x' = b' - A' x); the derivative w.r.t. a parameter shared by a group is the sum of the per-row "
        "partials (any group, any n). For the re-translated rate functions of the built-in channels (Props/C05_Kernels.lean: HH m/h/n, Na m/h, K n, "
        "CaL q/r, Km p, CaT u as far as listed in the audit) the link to the code is a theorem: each GENERATED kernel equals a term of the "
        "language on the region where save_exp does not clip, over the reals and over the dual numbers, hence running the generated kernel "
        "on dual numbers yields its HasDerivAt-derivative in the voltage (away from the removable singularities). Measured on every run: <jax.grad, d> on the real code (all solvers x backends x checkpoint "
        "layouts, exact and padded) vs the forward-mode derivative of the Lean cable model over dual numbers (agree to ~1e-12) and vs "
        "Richardson-extrapolated central differences; active models with make_trainable on channel, synapse, geometry and "
        "initial-state keys incl. groups of unequal size: jax.grad vs finite differences.",
   note=TRUST + "JAX AD, jax.checkpoint and the custom VJP of spsolve are trusted runtime; the reflection into the expression language is proved for the rate functions "
        "listed in the audit (hand-written terms, rfl against the regenerated kernels), not for update_states / compute_current and not for the "
        "whole simulation; losses may read voltages and recorded membrane / synaptic currents. Partial."),
 "C16": dict(cat="proof", ref="DESIGN.md §4 C16",
   technique="executable Lean model of the SWC reader (bit-exact with the implementation) + independent section Spec evaluated by the Lean driver + combinatorial/interpolation theorems",
   text="Model.Swc mirrors the reader (two-loop branch splitting, long-branch splitting, stable sort, parents, path lengths, radius "
        "functions, compartment radii, groups) and agrees with the real swc_to_jaxley/read_swc bit for bit on seeded random well-formed "
        "trees; Spec.Swc defines sections (maximal unbranched same-type paths) independently and the driver compares the "
        "implementation's branches, lengths and types with it. Theorems: splitting a branch into k pieces yields k connected pieces "
        "that glue back to the branch; build_parents returns the unique branch whose last point is this branch's first point; the "
        "radius formula is a linear interpolation between the neighbouring traced radii (and the min_radius clip is a max); compartment "
        "centres and lengths (total length independent of ncomp); the type groups partition the branches by SWC type (for all "
        "types, groupName injective); the stable sort is a stable sorted permutation; Spec sections are parent/child chains.",
   note=TRUST + "np.loadtxt and sqrt rounding are trusted; theorems about formulas are over the reals, the Float model is tied by the bit-exact "
        "correspondence. Known findings D2 (multi-point soma listed non-contiguously), D4 (type change at the second point of a non-soma "
        "root); fixed D1 (type of the first neurite), D3 (max_branch_len crashes). split_eq_sections (model = Spec for all well-formed "
        "files) is not proved: it is checked per case."),
}

def main():
    man = {
     "version": 1,
     "setup_cmd": "python3 tools/py2lean.py && python3 tools/mkaudit.py && cd lean && lake build",
     "hooks": {
      "guard": "JAXLEY_VERIF",
      "enable": "no source hooks: the harness imports the real jaxley from /repo in-process (PYTHONPATH=/repo) and observes public/underscore attributes; JAXLEY_VERIF=1 is exported for the harness only",
      "baseline_off_cmd": "cd /repo && /venv/bin/python -m pytest -ra -q -p no:cacheprovider --timeout=900 --continue-on-collection-errors",
      "source_commits": [],
      "add_only": True,
     },
     "engines": [{"name": "lean-model", "path": "lean", "serves_properties": sorted(CHECKS),
       "kind_free_text": "Lean 4 library (generated kernels from /repo via tools/py2lean.py, hand model, Spec, theorems) + compiled line-protocol driver; python harness runs the real jaxley next to it"}],
     "checks": [],
     "not_applicable": [],
     "notes": "bin/check Cxx quick|thorough implements DESIGN.md §2.6; known findings in known_findings.json",
    }
    for pid in sorted(CHECKS):
        c = CHECKS[pid]
        man["checks"].append({
          "property_id": pid, "quick_cmd": f"bin/check {pid} quick", "thorough_cmd": f"bin/check {pid} thorough",
          "evidence_file": f"evidence/{pid}.json", "replay_cmd_template": f"bin/check {pid} --replay {{path}}",
          "engine": "lean-model", "technique": c["technique"],
          "level_claimed": {"category": c["cat"], "text": c["text"], "design_ref": c["ref"]},
          "level_note": c["note"]})
    allp = [json.loads(l)["id"] for l in open(os.path.join(ROOT, "properties.jsonl"))]
    pending = {
    }
    for pid in allp:
        if pid not in CHECKS:
            man["not_applicable"].append({"property_id": pid, "reason": pending.get(pid, "not yet claimed: check under construction in this round (see DESIGN.md §8 build order)")})
    json.dump(man, open(os.path.join(ROOT, "MANIFEST.json"), "w"), indent=1, ensure_ascii=False)
    print("checks:", len(man["checks"]), "unclaimed:", len(man["not_applicable"]))

if __name__ == "__main__":
    main()
