#!/usr/bin/env python3
"""Markdown table of the seeded changes (seeded/<id>/meta.json + seeded/RESULTS.json) for DESIGN.md §B.5."""
import glob, json, os, re
ROOT = os.path.dirname(os.path.dirname(os.path.abspath(__file__)))
# what had to be added to the checks before the change was caught at every seed ("-" = caught by the check as it was)
STRENGTHENED = {
    "C01-1": "-", "C02-1": "-", "C09-1": "-", "C12-1": "-", "C12-2": "-", "C13-1": "-", "C13-2": "-", "C14-2": "-", "C16-1": "-",
    "C17-1": "-", "C05-2": "-", "C07-1": "-", "C20-2": "-",
    "C02-2": "C02 and the C01 corpus got networks of cells of different depth (per-cell charge balance / bounds)",
    "C03-1": "C03 evaluated no Spec predicate when the translated model was unavailable; now it always does (concrete failing input instead of no-failing-input-found)",
    "C03-2": "same as C03-1",
    "C04-1": "C04: rename invariance of every method (update_states, init_state, compute_current); C14: init_states exceptions are failures",
    "C04-2": "C04: update_states must follow the PUBLISHED kinetics for non-default shift parameters (before: only via the broken translation)",
    "C05-1": "C05: directed model with one trainable per branch on branches of unequal size (padded index groups) in every shard",
    "C06-1": "C06: the arguments of integrate (param_state, data_stimuli) are inputs: unchanged, repeated call bit-identical, equal to the set() route; interleaved synapse types",
    "C06-2": "none needed in C07 (returned state after padded steps); C06's own statement (recordings) is not violated by this change",
    "C07-2": "C07: module-level stimulus / voltage clamp / synaptic clamp with interleaved types, manual stepping with the step function's DEFAULT input indices",
    "C08-1": "C08: several clamps of one synaptic state in arbitrary order through clamp / data_clamp / mixed routes",
    "C08-2": "C08: several stimuli in non-ascending call order through stimulate / chained data_stimulate / mixed, against manual stepping",
    "C09-2": "C09: parameters assigned BETWEEN connect calls (connect; set; connect ...) must persist and give the same result",
    "C10-1": "C10: every synaptic parameter AND initial synaptic state through set / data_set / make_trainable / write_trainables",
    "C10-2": "C10: per-branch trainables on branches of unequal size that exclude the module's last row; group.branch('all')",
    "C11-1": "C11: Spec predicate for every cell/branch/comp selection (rows denoted, from the global index columns), deterministic global/local slice battery, directed chains starting with a scope switch",
    "C11-2": "C11: a SECOND mutating call through another (disjoint) view; exceptions of mutators are failures",
    "C14-1": "C14: init_states called AGAIN on a used module after parameters and voltages changed",
    "C15-1": "C15: the cable built as a chain of branches (one compartment per branch on the first rung) must equal the one-branch cable",
    "C15-2": "C15: Rall equivalent-cylinder trees with daughters of unequal discretisation (coarser first), order-2 ladder",
    "C16-2": "C16: long densely traced sections so that the 10-piece cap of max_branch_len is reached; split pieces carry their section's SWC type",
    "C17-2": "C17: MaskedTransform forward/inverse on arbitrary unmasked values, eager and jit (bit-identical pass-through)",
    "C18-1": "C18: SWC cells with single-point somata (generator of C16); pickle failures are failures",
    "C18-2": "C18: copying a USED module (jax tables present) must leave the original's attributes intact and original and copies usable through init_fn",
    "C19-1": "C19: directed histories (channels sharing columns in disjoint regions, deletion through the view holding the channel), invariant after every directed step, biased generator",
    "C19-2": "recordings/clamps addressing belongs to C08, which catches it; C19's tables are unaffected by this change",
    "C20-1": "C20: exceptions of a builder on legal populations are failures (the harness crashed before)",
    # round 3
    "C01-3": "-", "C08-3": "-", "C11-3": "-", "C13-3": "-", "C14-3": "-", "C15-3": "-", "C16-3": "-", "C20-3": "-",
    "C03-3": "caught as a broken obligation; a concrete input only through C04's new ladders v_sing ± 10^-k (C03's predicate is relative to the implementation's own rates)",
    "C04-3": "C04: ladders v_sing ± 10^-k (k = 1..8) towards every removable singularity with a cancellation-aware tolerance",
    "C02-3": "C02: charge balance with capacitance / resistivity / radius supplied by data_set; C10: axial_conductances compared, routes must simulate the same",
    "C05-3": "C05: losses that read recorded membrane / synaptic currents",
    "C06-3": "C06: execution history (same nested layout used again with other inputs and parameters)",
    "C07-3": "C07: split / continuation with params= (trainable initial states) and param_state=",
    "C09-3": "C11: Spec predicate and battery for synapse-type views on restricted parent views (effect lies in C11's statement)",
    "C10-3": "C10: write_trainables after an edit of an unselected row since the last to_jax",
    "C12-3": "C12: constituents with the same mechanisms inserted in a different order, at every level",
    "C17-3": "C17: ParamTransform lists with duplicate parameter names",
    "C18-3": "C18: copies simulated with every backend; padded cells (direct and by set_ncomp)",
    "C19-3": "C19: set_ncomp histories with groups (C13 caught it as it stood)",
}


def last_runs(d):
    """latest run per (property, seed) from seeded/<id>/runs.json"""
    rj = os.path.join(d, "runs.json")
    out = {}
    if os.path.exists(rj):
        for batch in json.load(open(rj)):
            for r in batch.get("runs", []):
                out[(r["prop"], int(r["seed"]))] = r
    return out


def table():
    rows = ["| id | file(s) | change | needs | caught by (quick tier, seeds 0 and 1; latest run) | what the miss taught |", "|---|---|---|---|---|---|"]
    for d in sorted(glob.glob(os.path.join(ROOT, "seeded", "C*-*"))):
        sid = os.path.basename(d)
        meta = json.load(open(os.path.join(d, "meta.json")))
        files = sorted(set(re.findall(r"^\+\+\+ b/(\S+)", open(os.path.join(d, "patch.diff")).read(), re.M)))
        caught = {}
        for (prop, seed), r in sorted(last_runs(d).items()):
            v = r.get("violation") or []
            caught.setdefault(prop, []).append(("yes" if r["exit"] == 1 and v else "NO" if r["exit"] == 0 else f"exit {r['exit']}")
                                               + (" (no-failing-input-found)" if v and "no-failing-input-found" in v[0] else ""))
        cs = "; ".join(f"{p}: {', '.join(v)}" for p, v in caught.items()) or "(not run)"
        short = lambda t, n: (t[:n] + "…") if len(t) > n else t
        clean = lambda t: t.replace("|", "/").replace("\n", " ")
        rows.append(f"| {sid} | {', '.join(f.replace('jaxley/', '') for f in files)} | {clean(short(meta.get('summary', ''), 230))} | {clean(short(meta.get('needs', ''), 200))} | {cs} | {STRENGTHENED.get(sid, '')} |")
    return "\n".join(rows)


def main():
    import sys
    t = table()
    if "--write" in sys.argv:
        p = os.path.join(ROOT, "DESIGN.md")
        s = open(p).read()
        a, b = s.index("<!-- SEEDTABLE-BEGIN -->"), s.index("<!-- SEEDTABLE-END -->")
        s = s[:a] + "<!-- SEEDTABLE-BEGIN -->\n" + t + "\n" + s[b:]
        open(p, "w").write(s)
    else:
        print(t)


if __name__ == "__main__":
    main()
