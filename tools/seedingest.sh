#!/bin/bash
# usage: tools/seedingest.sh <seed-id> <source-dir-with-patch.diff,demo.py,meta.json | - (already stored)> [props]
# stores the change as /verif/seeded/<id>/, confirms it independently (tools/seedconfirm.py) and runs the checks against it from
# a scratch copy of /verif (so that checks of the own tree are not disturbed); the scratch copy is refreshed first.
set -u
ID=$1; SRC=$2; PROPS=${3:-}
SLOT=${SLOT:-0}
V=/verif; S=/tmp/lw/S$SLOT; export SEED_WT=/tmp/scratch/wtc$SLOT
if [ "$SRC" != "-" ]; then
  mkdir -p $V/seeded/$ID
  cp $SRC/patch.diff $SRC/demo.py $SRC/meta.json $V/seeded/$ID/ || exit 2
  python3 $V/tools/seedconfirm.py $ID
fi
mkdir -p $S && rsync -a --delete --exclude .git $V/ $S/
cd $S && python3 tools/seedtest.py $S/seeded/$ID --seeds 0,1 --wt /tmp/scratch/wtS$SLOT ${PROPS:+--props $PROPS}
cp $S/seeded/$ID/runs.json $V/seeded/$ID/runs.json
